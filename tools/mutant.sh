#!/bin/sh
# usage: tools/mutant.sh <patch.diff> <PROP> [tier]   -- copy /repo to a scratch dir, apply the patch, run ./check PROP there
# (dev tool; not registered in MANIFEST).  Prints the check's verdict line(s); removes the scratch copy.
set -e
patch="$(realpath "$1")"; prop="$2"; tier="${3:-quick}"
scratch="$(mktemp -d /tmp/mutant.XXXXXX)"
trap 'rm -rf "$scratch"' EXIT
rsync -a --exclude .git --exclude '*.pyc' --exclude __pycache__ /repo/ "$scratch/repo/"
( cd "$scratch/repo" && patch -p1 -s < "$patch" )
cd "$(dirname "$0")/.."
set +e
CNVKIT_VERIF_REPO="$scratch/repo" ./check "$prop" --tier "$tier" > "$scratch/out.txt" 2>&1
rc=$?
grep -E "^(VIOLATION|KNOWN-FINDING|HARNESS|C[0-9]+ tier)" "$scratch/out.txt" | head -8
grep -A3 "^VIOLATION" "$scratch/out.txt" | sed -n 2,4p | cut -c1-300
echo "exit=$rc"
exit 0

#!/bin/sh
# Run every registered check's quick tier in /verif against /repo (this is what rewrites evidence/*.json), then validate
# MANIFEST.json and every evidence file against the schemas.  usage: tools/quick_all.sh [ids...]   env: VERIF_SEED
cd "$(dirname "$0")/.." || exit 2
ids="$*"
[ -n "$ids" ] || ids=$(grep -v '^#' tools/ready.txt | sort)
bad=0
for p in $ids; do
  out=$(./check "$p" --tier quick 2>&1); rc=$?
  echo "$out" | grep -E "^$p tier" | cut -c1-170
  echo "$out" | grep -E "^(VIOLATION|KNOWN-FINDING|HARNESS)" | head -5
  [ $rc -eq 0 ] || { echo "!! $p exit=$rc"; bad=1; }
done
python3-vt - <<'PY'
import json, jsonschema, glob
m = json.load(open('MANIFEST.json')); jsonschema.validate(m, json.load(open('/root/.vp/MANIFEST.schema.json')))
s = json.load(open('/root/.vp/EVIDENCE.schema.json'))
n = 0
for c in m['checks']:
    e = json.load(open(c['evidence_file'])); jsonschema.validate(e, s); n += 1
    assert e['violations'] == 0 and e['coverage']['exhaustive'] and e['coverage']['tree'] == '/repo', (c['property_id'], e['violations'], e['coverage']['caps_hit'])
print('manifest + %d evidence files valid, 0 violations, all exhaustive, tree /repo' % n)
PY
exit $bad

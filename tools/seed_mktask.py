import json,sys,os,glob
props={json.loads(l)['id']:json.loads(l) for l in open('/verif/properties.jsonl')}
T=open('/tmp/seed6/TEMPLATE.md').read()
for pid in sys.argv[1:]:
    p=props[pid]
    tried=[]
    for d in sorted(glob.glob(f'/verif/seeded/{pid}-*')):
        try:
            h=open(d+'/notes.md').readline().strip().lstrip('# ').strip()
        except Exception: continue
        tried.append('* '+h)
    extra = ("\n## Already tried by earlier authors (do something DIFFERENT in mechanism and in the input it needs)\n\n"
             + "\n".join(tried) + "\n\n"
             "Aim at the *wording* of the property: pick a clause or a part of the quantifier that the list above has not "
             "attacked yet, in a function/code path it has not touched yet if one exists (look at every function the property's "
             "behaviour flows through, including helpers in other modules and the command-line layer in cnvlib/commands.py where "
             "the property speaks of commands or files).  Prefer breakage that needs a *history* (a second call, a call on a derived "
             "object, state kept between calls, an argument or module-level object modified in place), a *schedule* (worker pool "
             "size, chunking, completion order) or *two cooperating sites*, over a plain wrong formula.\n")
    txt=T.replace('{id}',pid).replace('{title}',p['title']).replace('{statement}',p['statement']).replace('{quant}',p['quantifier']['text'])
    txt=txt.replace('## What to deliver', extra+'\n## What to deliver')
    open(f'/tmp/seed6/{pid}/TASK.md','w').write(txt)

#!/bin/sh
cd /verif
for id in "$@"; do
  p=${id%-*}
  echo "=== $id"
  VERIF_JOBS=${VERIF_JOBS:-6} tools/seed_eval.py --src seeded/$id --id $id --prop $p --skip-baseline 2>&1 | tail -2
done

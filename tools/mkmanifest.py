#!/venv/bin/python
"""Regenerate MANIFEST.json from the check modules present (dev tool; MANIFEST.json is committed).

Each checks/cXX.py may define MANIFEST = {"text": ..., "note": ..., "technique": ..., "design_ref": ...}.
Properties without a check module are listed under not_applicable with the reason given in PENDING.
"""
import importlib
import json
import os
import sys

HERE = os.path.dirname(os.path.dirname(os.path.abspath(__file__)))
sys.path.insert(0, HERE)

BASELINE_OFF = (
    "cd /repo && env -u CNVKIT_VERIF /venv/bin/python -m pytest -ra -q -p no:cacheprovider --timeout=900 "
    "--continue-on-collection-errors"
)


READY = [l.strip() for l in open(os.path.join(HERE, "tools", "ready.txt")) if l.strip() and not l.startswith("#")]


def main():
    props = [json.loads(line) for line in open(os.path.join(HERE, "properties.jsonl"))]
    checks, na = [], []
    for p in props:
        pid = p["id"]
        path = os.path.join(HERE, "checks", pid.lower() + ".py")
        if not os.path.exists(path) or pid not in READY:
            na.append({"property_id": pid, "reason": "no check registered yet in this revision of /verif (planned in DESIGN.md section 5)"})
            continue
        mod = importlib.import_module("checks." + pid.lower())
        m = getattr(mod, "MANIFEST", {})
        checks.append(
            {
                "property_id": pid,
                "quick_cmd": f"./check {pid} --tier quick",
                "thorough_cmd": f"./check {pid} --tier thorough",
                "evidence_file": f"/verif/evidence/{pid}.json",
                "replay_cmd_template": f"./check {pid} --replay {{path}}",
                "engine": m.get("engine", "mc-explorer"),
                "level_claimed": {
                    "category": "model_checking",
                    "text": m["text"],
                    "design_ref": m.get("design_ref", f"DESIGN.md section 5, {pid}"),
                },
                "level_note": m["note"],
                "technique": m["technique"],
            }
        )
    manifest = {
        "version": 1,
        "setup_cmd": "./setup.sh",
        "hooks": {
            "guard": "CNVKIT_VERIF",
            "enable": "no source hooks exist: checks import /repo's working tree directly (CNVKIT_VERIF_REPO, default /repo) "
            "and reach every seam by monkeypatching module attributes inside the harness process; CNVKIT_VERIF=1 is set "
            "by the harness only for bookkeeping",
            "baseline_off_cmd": BASELINE_OFF,
            "source_commits": [],
            "add_only": True,
        },
        "engines": [
            {
                "name": "mc-explorer",
                "path": "/verif/mc",
                "serves_properties": [c["property_id"] for c in checks],
                "kind_free_text": "hand-written explicit-state / bounded-exhaustive explorer for Python: enumerates finite "
                "input, configuration, operation-sequence and worker-schedule spaces, runs the real cnvlib/skgenome code on "
                "every element in 16 shard processes, compares with pure-Python reference models (models/), BFS with "
                "canonical state hashing for operation chains and file-system states, choice-sequence DFS over a virtual "
                "ProcessPoolExecutor for schedules",
            }
        ],
        "checks": checks,
        "not_applicable": na,
        "notes": "All checks: exit 0 = held on everything explored (KNOWN-FINDING lines allowed), exit 1 = VIOLATION line(s), "
        "exit 2 = harness error (never used for a property verdict). known_findings.json lists recorded and fixed defects.",
    }
    with open(os.path.join(HERE, "MANIFEST.json"), "w") as f:
        json.dump(manifest, f, indent=1)
        f.write("\n")
    print(f"{len(checks)} checks, {len(na)} not_applicable")


if __name__ == "__main__":
    main()

#!/venv/bin/python
"""Markdown table of what the committed quick-tier evidence files cover (for DESIGN.md section 9.5)."""
import glob, json, os
HERE = os.path.dirname(os.path.dirname(os.path.abspath(__file__)))
print("| property | cases | states | transitions (real-code operations) | traces compared with the model | distinct outcomes | strata | wall s |\n|---|---|---|---|---|---|---|---|")
tot = [0, 0, 0]
for f in sorted(glob.glob(os.path.join(HERE, "evidence", "C*.json"))):
    e = json.load(open(f)); c = e["coverage"]
    print(f"| {e['property_id']} | {c['cases_enumerated']} | {c['states']} | {c['transitions']} | {c['traces_validated_against_impl']} | {c['distinct_outcomes']} | {len(c['strata'])} | {e['wall_s']:.0f} |")
    tot[0] += c["states"]; tot[1] += c["transitions"]; tot[2] += c["traces_validated_against_impl"]
print(f"| all | | {tot[0]} | {tot[1]} | {tot[2]} | | | |")

#!/bin/sh
# Run every registered check's thorough tier, one after another (dev tool; use under `vp run`).
# usage: tools/thorough_all.sh [ids...]   env: VERIF_JOBS (default 8)
cd "$(dirname "$0")/.." || exit 2
ids="$*"
[ -n "$ids" ] || ids=$(grep -v '^#' tools/ready.txt)
for p in $ids; do
  start=$(date +%s)
  VERIF_JOBS="${VERIF_JOBS:-8}" timeout 4h ./check "$p" --tier thorough > "thorough-$p.log" 2>&1
  rc=$?
  echo "== $p exit=$rc wall=$(( $(date +%s) - start ))s $(grep -E "^$p tier" "thorough-$p.log" | cut -c1-200)"
  grep -E "^(VIOLATION|KNOWN-FINDING|HARNESS)|^  key=" "thorough-$p.log" | cut -c1-300 | head -12
done

#!/bin/sh
# usage: eval.sh C01 C02 ...   evaluates /tmp/seed6/<p>/out/{A,B} as <p>-I / <p>-J  (C11: G / H)
cd /verif
for p in "$@"; do
  for x in A B; do
    if [ $p = C11 ]; then y=$( [ $x = A ] && echo G || echo H ); else y=$( [ $x = A ] && echo I || echo J ); fi
    [ -f /tmp/seed6/$p/out/$x/patch.diff ] || { echo "=== $p-$y MISSING"; continue; }
    echo "=== $p-$y"
    VERIF_JOBS=${VERIF_JOBS:-6} tools/seed_eval.py --src /tmp/seed6/$p/out/$x --id $p-$y --prop $p 2>&1 | tail -4
  done
done

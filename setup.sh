#!/bin/sh
# Offline setup: nothing to build (pure Python harness). Verifies the interpreter and imports the checks need.
set -e
cd "$(dirname "$0")"
/venv/bin/python - <<'PY'
import os, sys
import numpy, pandas, scipy, pysam  # noqa: F401
assert hasattr(os, "fork")
print("setup ok: python", sys.version.split()[0], "pandas", pandas.__version__, "numpy", numpy.__version__, "pysam", pysam.__version__)
PY
command -v tlc >/dev/null || { echo "setup: tlc (TLA+ model checker) not on PATH: C03/C09 cross-validate their schedule sets with it" >&2; exit 1; }
mkdir -p evidence replays

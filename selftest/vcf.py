"""Model-vs-model cross-examination for models/vcf.py (C18).

Second, differently shaped formulations:
* writer + record model: the written text is parsed back by a minimal line parser and depth / alt count /
  zygosity are re-derived by a lookup-table formulation (first available source in the documented order) -
  against models.vcf.expected_rows on every single-record form x genotype;
* sample selection: candidate-list formulation (list every documented pair in order, keep the requested
  tumour, take the first) - against the case analysis in models.vcf.choose_samples on 1..3 samples x every
  PEDIGREE declaration x every selector pair;
* mirrored median BAF: numpy formulation (np.median of 0.5 +- |v - 0.5|; side by sign of the sum of
  sign(v - 0.5) and by the sign of the median) - against models.vcf.range_baf on every vector of length <= 4
  over a lattice that contains 0.5;
* TumorBoost and purity rescaling: inverse identities (the formulas solved back for the input);
* filters and het selection on definite rows: brute-force set comprehension.

Run:  cd /verif && /venv/bin/python -m selftest.vcf        (exit 0 = all formulations agree)
"""
import itertools
import math
import sys

import numpy as np

from models import vcf as M

GTS = ["0/1", "0/0", "1/1", "0|1", "1|0", "./.", "1/0", "0|0", "1|1"]
ADS = [(10, 10), (20, 0), (0, 20), (3, 27), (15, 5)]


def parse(text):
    """Minimal VCF text parser: sample names, PEDIGREE pairs, per-record dicts of raw strings."""
    names, peds, recs = [], [], []
    for line in text.splitlines():
        if line.startswith("##PEDIGREE=<"):
            kv = dict(x.split("=") for x in line[len("##PEDIGREE=<") : -1].split(","))
            peds.append((kv["Derived"], kv["Original"]))
        elif line.startswith("#CHROM"):
            names = line.split("\t")[9:]
        elif not line.startswith("#"):
            f = line.split("\t")
            info = {} if f[7] == "." else dict((x.split("=") + [True])[:2] for x in f[7].split(";"))
            keys = f[8].split(":")
            samples = [dict(zip(keys, col.split(":"))) for col in f[9:]]
            recs.append({"chrom": f[0], "pos": int(f[1]), "ref": f[3], "alt": f[4], "info": info, "samples": samples})
    return names, peds, recs


def derive(rec, smp):
    """(depth, alt count, zygosity) by lookup; None = missing."""
    ad = smp.get("AD")
    ad = None if ad is None or "." in ad.split(",") else [int(x) for x in ad.split(",")]
    sources = []
    if "DP" in smp:
        sources.append(None if smp["DP"] == "." else float(smp["DP"]))
    elif "AD" in smp:
        sources.append(None if ad is None else float(sum(ad)))
    elif "DP" in rec["info"]:
        sources.append(float(rec["info"]["DP"]))
    else:
        sources.append(None)
    alleles = smp["GT"].replace("|", "/").split("/")
    zyg = None if "." in alleles else (0.5 if len(set(alleles)) == 2 else (0.0 if alleles[0] == "0" else 1.0))
    return sources[0], (None if ad is None else float(ad[1])), zyg


def forms():
    for fmt in (("GT", "AD", "DP"), ("GT", "AD"), ("GT", "DP"), ("GT",)):
        ads = ADS + [None] if "AD" in fmt else [None]
        for ad in ads:
            dps = ([sum(ad) if ad else 25, 24, None] if "DP" in fmt else [None])
            for dp in dps:
                for idp in (None, 40):
                    yield fmt, ad, dp, idp


def check_records(fail):
    n = 0
    for fmt, ad, dp, idp in forms():
        for gt in GTS:
            rec = {"chrom": "1", "pos": 101, "ref": "A", "alt": "G", "filter": "PASS", "somatic": gt == "0/1", "info_dp": idp, "end": None,
                   "fmt": list(fmt), "calls": [{"gt": gt, "ad": ad, "dp": dp}]}
            vcf = {"samples": ["S0"], "pedigree": [], "contigs": [("1", 1000)], "records": [rec]}
            names, peds, recs = parse(M.vcf_text(vcf))
            if names != ["S0"] or len(recs) != 1:
                fail(f"round trip lost the record / sample: {rec}")
                continue
            d, a, z = derive(recs[0], recs[0]["samples"][0])
            row = M.expected_rows(vcf, "S0", None)[0]
            n += 1
            if row["start"] != {recs[0]["pos"] - 1} or row["somatic"] != {"SOMATIC" in recs[0]["info"]}:
                fail(f"start / somatic differ: {rec}")
            # a definite value in one formulation must be the single admissible value of the other; a missing value
            # must be admissible as missing
            for name, val in (("depth", d), ("alt_count", a), ("zygosity", z)):
                adm = row[name]
                if val is None:
                    if not any(isinstance(x, float) and math.isnan(x) for x in adm):
                        fail(f"{name}: lookup says missing, model admits {adm}: {rec}")
                elif name == "depth" and "DP" in fmt and dp is None:
                    pass  # declared-but-missing DP: the model deliberately admits the fall-back sources too
                elif adm != {val}:
                    fail(f"{name}: lookup {val}, model {adm}: {rec}")
            if d is not None and a is not None and d > 0:
                if row["alt_freq"] != {a / d}:
                    fail(f"alt_freq: {a}/{d} vs {row['alt_freq']}: {rec}")
    return n


def select_by_candidates(vcf, sample_id, normal_id):
    names = vcf["samples"]
    sid = names[sample_id] if isinstance(sample_id, int) else sample_id
    nid = names[normal_id] if isinstance(normal_id, int) else normal_id
    if sid is not None and sid == nid:
        return None
    if vcf["pedigree"]:
        cands = list(vcf["pedigree"])
        source = "ped"
    elif nid is not None:
        cands = [(s, nid) for s in names if s != nid]
        source = "ids"
        if not cands:
            return None
    else:
        cands = [(s, None) for s in names]
        source = "all"
    if sid is not None:
        mine = [c for c in cands if c[0] == sid]
        if not mine:
            return (sid, {None, nid} if (source == "ped" and nid is not None) else {None})
        cands = mine
    return cands[0][0], {cands[0][1]}


def check_selection(fail):
    n = 0
    for k in (1, 2, 3):
        names = ["S%d" % i for i in range(k)]
        peds = [[]] + [[(a, b)] for a in names for b in names if a != b]
        if k == 3:
            peds += [[("S2", "S1"), ("S0", "S1")]]
        for ped in peds:
            vcf = {"samples": names, "pedigree": ped, "contigs": [], "records": []}
            idents = [None] + names + list(range(k))
            for sid in idents:
                for nid in idents:
                    n += 1
                    a, b = M.choose_samples(vcf, sid, nid), select_by_candidates(vcf, sid, nid)
                    if a != b:
                        fail(f"selection differs: {names} {ped} sid={sid} nid={nid}: {a} vs {b}")
    return n


def np_range_baf(vals, above_half):
    v = np.array(vals, dtype=float)
    if not len(v):
        return [float("nan")]
    if above_half is None:
        vote = np.sign(v - 0.5).sum()
        med = np.median(v) - 0.5
        if vote > 0 and med > 0:
            sides = [1.0]
        elif vote < 0 and med < 0:
            sides = [-1.0]
        else:
            sides = [1.0, -1.0]
    else:
        sides = [1.0 if above_half else -1.0]
    return [float(np.median(0.5 + s * np.abs(v - 0.5))) for s in sides]


def check_baf(fail):
    n = 0
    lattice = [0.0, 0.1, 0.3, 0.5, 0.7, 0.9, 1.0]
    for k in range(0, 5):
        for vals in itertools.product(lattice, repeat=k):
            for ah in (None, True, False):
                n += 1
                a, b = M.range_baf(list(vals), ah), np_range_baf(vals, ah)
                same = len(a) == len(b) and all((math.isnan(x) and math.isnan(y)) or abs(x - y) < 1e-12 for x, y in zip(a, b))
                if not same:
                    fail(f"range_baf differs on {vals} above_half={ah}: {a} vs {b}")
    # overlap selection: brute force over positions
    snps = [("1", p, p + 1, 0.1 * (i + 1)) for i, p in enumerate((3, 5, 5, 8))] + [("2", 4, 5, 0.9)]
    for s0 in range(0, 10):
        for e0 in range(s0 + 1, 11):
            want = [s for s in snps if s[0] == "1" and s0 <= s[1] < e0]
            if M.overlapping(snps, "1", s0, e0) != want:
                fail(f"overlapping differs on [{s0},{e0})")
            n += 1
    return n


def check_formulas(fail):
    n = 0
    grid = [i / 20 for i in range(21)]
    for t in grid:
        for nn in grid:
            b = M.tumor_boost(t, nn)
            n += 1
            if b is None:
                if not (nn == 1 and t >= nn):
                    fail(f"tumor_boost undefined at t={t} n={nn}")
                continue
            back = 2 * b * nn if t < nn else 1 - 2 * (1 - b) * (1 - nn)
            if abs(back - t) > 1e-12:
                fail(f"tumor_boost not invertible at t={t} n={nn}: {b} -> {back}")
            if t == nn and abs(b - 0.5) > 1e-12:
                fail(f"tumor_boost(n, n) != 0.5 at {t}")
    for p in [0.05, 0.1, 1 / 3, 0.5, 0.8, 1.0]:
        for b in grid:
            n += 1
            tb = M.rescale_baf(p, b)
            if abs(tb * p + 0.5 * (1 - p) - b) > 1e-12:
                fail(f"rescale_baf does not solve the mixture at p={p} baf={b}")
    return n


def check_filters(fail):
    n = 0
    depths = [0.0, 12.0, 19.0, 20.0, 36.0]
    for combo in itertools.product(depths, repeat=2):
        for ndepths in itertools.product([10.0, 24.0], repeat=2):
            for som in itertools.product([False, True], repeat=2):
                for paired in (False, True):
                    for md, ss in ((None, False), (20, False), (None, True), (20, True)):
                        rows = [{"depth": {d}, "n_depth": {nd}, "somatic": {s}} for d, nd, s in zip(combo, ndepths, som)]
                        req, opt = M.filter_rows(rows, md, ss, paired)
                        nodepth = all(d == 0 for d in combo)
                        want = [i for i in range(2) if not (ss and som[i]) and (not md or nodepth or (ndepths[i] if paired else combo[i]) >= md)]
                        n += 1
                        if sorted(req + opt) != want or (opt and not nodepth):
                            fail(f"filter_rows differs: depths={combo} n={ndepths} som={som} paired={paired} md={md} ss={ss}: {req}+{opt} vs {want}")
    zygs = [0.0, 0.5, 1.0]
    for tz in itertools.product(zygs, repeat=3):
        for nz in itertools.product(zygs, repeat=3):
            for paired in (False, True):
                rows = [{"zygosity": {a}, "n_zygosity": {b}, "alt_freq": {0.5}, "n_alt_freq": {0.5}} for a, b in zip(tz, nz)]
                outs = M.het_selection(rows, [0, 1, 2], paired, None)
                germ = nz if paired else tz
                het = frozenset(i for i in range(3) if germ[i] == 0.5)
                n += 1
                if het and outs != [het]:
                    fail(f"het_selection with hets present: {tz} {nz} paired={paired}: {outs}")
                if not het and (frozenset() not in outs or frozenset([0, 1, 2]) not in outs):
                    fail(f"het_selection without hets must admit nothing and the fall-back: {tz} {nz} paired={paired}: {outs}")
    for f in [0.0, 0.2, 0.25, 0.5, 0.74, 0.75, 1.0]:
        z = M.zyg_from_freq(f, 0.25)
        want = 0.0 if f < 0.25 else (0.5 if f < 0.75 else 1.0)
        n += 1
        if z != want:
            fail(f"zyg_from_freq({f}, 0.25) = {z}")
    return n


def main():
    problems = []
    counts = {}
    for name, fn in (("records", check_records), ("selection", check_selection), ("baf", check_baf), ("formulas", check_formulas), ("filters", check_filters)):
        counts[name] = fn(problems.append)
    for p in problems[:20]:
        print("DISAGREE:", p)
    print("selftest.vcf:", ", ".join(f"{k}={v}" for k, v in counts.items()), "-", "FAILED (%d)" % len(problems) if problems else "all formulations agree")
    return 1 if problems else 0


if __name__ == "__main__":
    sys.exit(main())

"""Cross-examination of the C02 additions to models/calling.py against differently shaped formulations.

    cd /verif && /venv/bin/python -m selftest.calling_c02      (exit 0 = agreement on the whole alphabet the check uses)

* threshold_cn_strict (count of thresholds below; float ceil with an open zone / exact rationals) vs. a formulation that walks the
  vector from the top, truncates with Fractions and decides the ceiling in 60-digit decimal arithmetic: the high-precision answer
  must always be accepted, and where the model names a single value it must be that value;
* threshold_cn_strict vs. the older threshold_cn: the strict set is a subset, equal below the last threshold;
* the step function of the default vector is non-decreasing for ploidy 2..6 under every candidate r, and is NOT for ploidy 1 with
  r = 1 (the reason the check does not claim the derived clause there); it is 2 at log2 0 for (r, ploidy) = (2, 2);
* allelic_clauses vs. a set-based formulation over a grid of (cn, cn1, cn2, has_baf) including missing values.
"""
import itertools
import math
import sys
from decimal import ROUND_CEILING, Decimal, getcontext
from fractions import Fraction

from models import calling as M

getcontext().prec = 60
DEFAULT = (-1.1, -0.25, 0.2, 0.7)
GRID = [-3, -2, -1.1, -0.75, -0.5, -0.25, 0, 0.2, 0.45, 0.7, 1.0, 1.2]


def hp_step(v, vec, r, ploidy):
    """High-precision reading of the statement; None where the ceiling is an exact integer only up to 1e-30."""
    if v != v:
        return r
    dv = Decimal(v)  # exact
    i = len(vec)
    while i > 0 and not (Decimal(vec[i - 1]) < dv):
        i -= 1
    if i < len(vec):
        return int(Fraction(i * r, ploidy)) if r < ploidy else i
    val = Decimal(r) * (Decimal(2) ** dv)
    return int(val.to_integral_value(rounding=ROUND_CEILING))


def points(vec, rs):
    pts = [float("nan"), vec[0] - 1, vec[0] - 30, vec[-1] + 1, vec[-1] + 10]
    for t in vec:
        pts += [t, math.nextafter(t, -math.inf), math.nextafter(t, math.inf), t - 1e-9, t + 1e-9]
    pts += [(a + b) / 2 for a, b in zip(vec, vec[1:])]
    for r in rs:
        if not r:
            continue
        for k in range(1, 15):
            v = math.log2(k / r)
            pts += [v, math.nextafter(v, -math.inf), math.nextafter(v, math.inf)]
            pts += [math.log2((k + d) / r) for d in (0.25, 0.5, 0.75)]
    return pts


def main():
    n = 0
    vecs = [DEFAULT, tuple(math.log2((i + 0.5) / 6) for i in range(12)), (0.0,), (-1, 0, 1), (-30.0, 30.0)]
    vecs.append((math.nextafter(0.0, -1.0), 0.0, math.nextafter(0.0, 1.0)))
    vecs.append((math.nextafter(0.2, -1.0), 0.2, math.nextafter(0.2, 1.0)))
    for k in range(1, 5):
        vecs += list(itertools.combinations(GRID, k))
    vecs += [tuple(GRID), tuple(GRID[1:]), tuple(GRID[:-1])]
    singles = both = 0
    for vec in vecs:
        for ploidy in range(1, 7):
            rs = sorted({ploidy, *M.haploid_candidates(ploidy)})
            for r in rs:
                for v in points(vec, rs):
                    strict = M.threshold_cn_strict(v, vec, r, ploidy)
                    loose = M.threshold_cn(v, vec, r, ploidy)
                    hp = hp_step(v, vec, r, ploidy)
                    assert hp in strict, (vec, ploidy, r, v, strict, hp)
                    assert strict <= loose, (vec, ploidy, r, v, strict, loose)
                    if len(strict) == 1:
                        singles += 1
                    else:
                        both += 1
                        # the open zone is only ever the ceiling next to an integer
                        assert M.threshold_region(v, vec) == "above-last" and r > 0
                        k = round(r * 2.0**v)
                        assert strict == {k, k + 1}
                    if v == v and float(v).is_integer() and M.threshold_region(v, vec) == "above-last":
                        assert strict == {math.ceil(Fraction(r) * Fraction(2) ** int(v))} and len(strict) == 1
                    n += 1
    assert singles > both > 0
    # region labels agree with a count formulation
    for vec in vecs[:60]:
        for v in points(vec, [1, 2, 3]):
            reg = M.threshold_region(v, vec)
            if v != v:
                assert reg == "nan"
                continue
            lo, eq = sum(t < v for t in vec), sum(t == v for t in vec)
            want = "at-threshold" if eq else "below-first" if lo == 0 else "above-last" if lo == len(vec) else "between"
            assert reg == want, (vec, v, reg, want)
            n += 1
    # the derived clauses on the default vector
    lattice = sorted(set([k / 1024 for k in range(-6 * 1024, 6 * 1024 + 1)] + [p for p in points(DEFAULT, [1, 2, 3, 4, 5, 6]) if p == p]))
    for ploidy in range(1, 7):
        for r in sorted({ploidy, *M.haploid_candidates(ploidy)}):
            lo = [min(M.threshold_cn_strict(v, DEFAULT, r, ploidy)) for v in lattice]
            hi = [max(M.threshold_cn_strict(v, DEFAULT, r, ploidy)) for v in lattice]
            # the lowest accepted reading is non-decreasing and the open zone is one unit wide for ploidy >= 2; for ploidy 1 with r = 1 it drops 3 -> 2
            mono = all(a <= b for a, b in zip(lo, lo[1:])) and all(h - l <= 1 for l, h in zip(lo, hi))
            if ploidy == 1 and r == 1:
                assert not mono and 3 in lo and any(a == 3 and b == 2 for a, b in zip(lo, lo[1:])), "ploidy 1: 3 on (0.2, 0.7] then ceil(2^log2) = 2"
            else:
                assert mono, (ploidy, r)
            n += 1
    assert M.threshold_cn_strict(0.0, DEFAULT, 2, 2) == {2}
    # allelic clauses vs. a set formulation
    vals = [None, float("nan"), -1, 0, 1, 2, 3, 4, 0.5]
    for cn in range(0, 4):
        for c1, c2, has in itertools.product(vals, vals, (False, True)):
            miss1 = c1 is None or c1 != c1
            miss2 = c2 is None or c2 != c2
            must_be_missing = (not has) and cn > 0
            ok = (miss1 and miss2) if must_be_missing else (not miss1 and not miss2 and c1 + c2 == cn and 0 <= c1 <= cn and 0 <= c2 <= cn)
            got = M.allelic_clauses(cn, c1, c2, has)
            assert (got == []) == ok, (cn, c1, c2, has, got)
            n += 1
    print(f"selftest.calling_c02: {n} comparisons, all agree ({singles} decided values, {both} open ceilings)")
    return 0


if __name__ == "__main__":
    sys.exit(main())

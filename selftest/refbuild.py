"""Cross-examination of models/refbuild.py (DESIGN section 4 rule 5).

Each piece of the C05 oracle is compared with a second, differently shaped formulation:

  biweight location / midvariance   weighted-mean form (refbuild)  vs  "estimate + correction" form (models/stats.py)
                                    vs a vectorised NumPy form, over small multisets and over estimator inputs shaped
                                    like the check's (pseudo-sample + k near-equal values + sex-chromosome outliers)
  sex shift                         copy-number ratio  vs  the "add the flat row, female Y := -1, male X, Y += 1" recipe
  centring                          median of chromosome medians  vs  NumPy on a dict of arrays
  gc / rmask                        character walk  vs  position lists  vs  str.count arithmetic, on every string of
                                    length <= 5 over 'AcGtNnR'
  FASTA                             render -> parse round trip at several widths
  pooled_reference                  against a column-wise NumPy re-assembly on a small cohort

No cnvlib import.  Run:  /venv/bin/python -m selftest.refbuild     (exit 0 = all formulations agree)
"""
import itertools
import math
import sys

import numpy as np

from models import refbuild as RB
from models import stats as MS

VALUES = [1.0, 2.0, 0.0, 0.5, -1.0, -3.0, 100.0]


def close(a, b, tol=1e-9):
    return abs(a - b) <= tol * max(1.0, abs(a), abs(b))


def np_location(a, c=6.0, tol=1e-3, max_iter=5):
    a = np.asarray(a, float)
    m = float(np.median(a))
    for _ in range(max_iter):
        d = a - m
        u = d / max(c * float(np.median(np.abs(d))), tol)
        wt = np.where(np.abs(u) < 1, (1 - u**2) ** 2, 0.0)
        new = m if wt.sum() == 0 else float((wt * a).sum() / wt.sum())
        if abs(new - m) <= tol:
            return new
        m = new
    return new


def main():
    fails = []
    n = 0

    def expect(ok, what, *ctx):
        nonlocal n
        n += 1
        if not ok and len(fails) < 20:
            fails.append((what,) + ctx)

    vectors = [list(ms) for k in range(2, 7) for ms in itertools.combinations_with_replacement(VALUES, k)]
    # shaped like the check's estimator inputs: pseudo-sample, near-equal samples, one contrary-sex sample
    for k in range(1, 9):
        for flat in (0.0, -1.0):
            for spread in (0.0, 1e-4, 0.03):
                base = [flat + 0.2 + spread * ((7 * i) % 5 - 2) for i in range(k)]
                vectors.append([flat] + base)
                vectors.append([flat] + base[:-1] + [base[-1] - 1.0])
                vectors.append([flat] + base[:-1] + [base[-1] + 1.0])
    for v in vectors:
        if len(set(v)) == 1:
            continue
        vals, info = RB.biweight_location(v)
        other, _ = MS.biweight_location(v)
        expect(all(any(close(a, b) for b in other) for a in vals) and all(any(close(a, b) for a in vals) for b in other), "location vs models/stats", v, vals, other)
        expect(any(close(a, np_location(v)) for a in vals), "location vs numpy", v, vals, np_location(v))
        for centre in (RB.median(v), vals[0]):
            mine = RB.biweight_midvariance(v, centre)
            ref = MS.biweight_midvariance(v, centre)
            expect(len(mine["values"]) == len(ref["values"]) and all(close(a, b) for a, b in zip(mine["values"], ref["values"])), "midvariance", v, centre, mine["values"], ref["values"])
            expect(close(mine["mad_fallback"], ref["mad_fallback"]) and close(mine["sum_u"], ref["sum_u"]), "midvariance fallback terms", v, centre)
    # sex shift: two formulations on every (role, sample sex, reference sex)
    for role in ("auto", "X", "Y", "other"):
        for sm in (False, True):
            for rm in (False, True):
                for v in (-0.3, 0.0, 0.25, -1.1):
                    expect(close(RB.to_reference_sex(v, role, sm, rm), RB.to_reference_sex_recipe(v, role, sm, rm)), "sex shift", role, sm, rm, v)
    for rm in (False, True):
        expect(RB.flat_log2("auto", rm) == 0.0 and RB.flat_log2("Y", rm) == -1.0 and RB.flat_log2("X", rm) == (-1.0 if rm else 0.0), "flat", rm)
    for name, role in (("chr1", "auto"), ("22", "auto"), ("chrX", "X"), ("X", "X"), ("chrY", "Y"), ("Y", "Y"), ("chrM", "other"), ("chrUn_gl1", "other"), ("chr1_random", "other")):
        expect(RB.role_of(name) == role, "role", name)
    # centring
    bins = [("chr1", 0.3 + 0.01 * i) for i in range(7)] + [("chr2", -0.2 + 0.02 * i) for i in range(4)] + [("chr3", 1.0)] + [("chrX", -5.0)] * 9
    per = {}
    for c, v in bins:
        per.setdefault(c, []).append(v)
    expect(close(RB.centre_of(bins), float(np.median([np.median(per[c]) for c in ("chr1", "chr2", "chr3")]))), "centre")
    # gc / rmask
    for k in range(0, 6):
        for t in itertools.product("AcGtNnR", repeat=k):
            s = "".join(t)
            a, b = RB.gc_rmask(s), RB.gc_rmask_counts(s)
            tot = sum(s.count(ch) for ch in "ACGTacgt")
            c = None if not tot else (sum(s.count(ch) for ch in "GCgc") / tot, sum(s.count(ch) for ch in "acgt") / tot)
            expect(a == b == c, "gc_rmask", s, a, b, c)
    # FASTA round trip
    recs = [("chr1", "ACGTNNNNacgt" * 5), ("X", "G" * 7), ("chrY", "")]
    for w in (1, 5, 12, 60, 100):
        expect(RB.parse_fasta(RB.render_fasta(recs, w)) == dict(recs), "fasta round trip", w)
    # pooled reference against a column-wise re-assembly
    names = ["chr1"] * 5 + ["chr2"] * 3 + ["chrX"] * 4 + ["chrY"] * 2
    rows = lambda off, male: [  # noqa: E731
        (c, 10 * j, 10 * j + 5, off + 0.1 * ((3 * j) % 4) + (0 if RB.role_of(c) == "auto" else (-1.0 if male else (0.0 if RB.role_of(c) == "X" else -8.0))))
        for j, c in enumerate(names)
    ]
    males = [False, True, True]
    samples = [rows(5.0, False), rows(6.5, True), rows(4.0, True)]
    for ref_male in (False, True):
        model = RB.pooled_reference([samples], males, ref_male)
        mat = []
        for smp, male in zip(samples, males):
            v = np.array([r[3] for r in smp])
            chrom_meds = [np.median([x for x, c in zip(v, names) if c == a]) for a in ("chr1", "chr2")]
            v = v - np.median(chrom_meds)
            isx = np.array([c == "chrX" for c in names])
            isy = np.array([c == "chrY" for c in names])
            flat = np.where(isy, -1.0, np.where(isx & ref_male, -1.0, 0.0))
            v = v + flat
            if male:
                v[isx | isy] += 1.0
            else:
                v[isy] = -1.0
            mat.append(v)
        flat = np.where(isy, -1.0, np.where(isx & ref_male, -1.0, 0.0))
        mat = np.vstack([flat] + mat)
        for j, r in enumerate(samples[0]):
            got = model[(r[0], r[1], r[2])]
            expect(all(close(a, float(b)) for a, b in zip(got["values"], mat[:, j])), "pooled inputs", ref_male, j, got["values"], list(mat[:, j]))
            expect(any(close(a, np_location(mat[:, j])) for a in got["log2"]), "pooled log2", ref_male, j)
    print(f"selftest.refbuild: {n} comparisons, {len(fails)} disagreements")
    for f in fails:
        print("  DISAGREE", f)
    return 1 if fails else 0


if __name__ == "__main__":
    sys.exit(main())

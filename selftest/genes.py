"""Model-vs-model cross-examination for models/genes.py (C16).

Second, differently shaped formulations:
* groups: *owner labelling* - every bin gets the gene whose [first, last] position interval contains it
  (None otherwise), groups are the maximal runs of equal owner - against the scan in models.genes.groups;
* precondition / word enumeration: brute force over all words, checking "no other gene's bin between a
  gene's first and last bin" by position sets - against models.genes.precondition and .words;
* genemetrics / breaks: per-gene recomputation from the owner labelling with explicit loops.

Run:  cd /verif && /venv/bin/python -m selftest.genes        (exit 0 = all formulations agree)
"""
import itertools
import sys

from models import genes as M


def owner_groups(bins, nongenes=M.NONGENES):
    out = []
    chroms = []
    for b in bins:
        if b[0] not in chroms:
            chroms.append(b[0])
    for chrom in chroms:
        pos = [i for i, b in enumerate(bins) if b[0] == chrom]
        first, last = {}, {}
        for i in pos:
            g = bins[i][3]
            if g not in nongenes:
                first.setdefault(g, i)
                last[g] = i
        owner = []
        for i in pos:
            own = [g for g in first if first[g] <= i <= last[g]]
            assert len(own) <= 1, "precondition violated"
            owner.append(own[0] if own else None)
        for own, run in itertools.groupby(zip(owner, pos), key=lambda x: x[0]):
            out.append((own if own is not None else M.ANTITARGET, [i for _o, i in run]))
    return out


def brute_valid(word, genes):
    for g in genes:
        ps = [i for i, s in enumerate(word) if s == g]
        if ps and any(word[i] in genes and word[i] != g for i in range(ps[0], ps[-1] + 1)):
            return False
    firsts = [word.index(g) if g in word else None for g in genes]
    used = [f for f in firsts if f is not None]
    # canonical: genes used are a prefix of the gene tuple, in order of first appearance
    return firsts[: len(used)] == sorted(used) and all(f is None for f in firsts[len(used) :])


def mkbins(wordlist):
    bins = []
    for c, word in enumerate(wordlist):
        for i, g in enumerate(word):
            k = len(bins)
            bins.append(("chr%d" % (c + 1), 1000 * (i + 1) + 100, 1000 * (i + 1) + 900, g, 0.3 * ((k * 7) % 5 - 2) + 0.01 * i, 10.0 + 3 * k, 1.0 if k % 2 == 0 else 0.5))
    return bins


def brute_genemetrics(bins, thr, minp):
    out = []
    for g, idxs in owner_groups(bins):
        if g == M.ANTITARGET:
            continue
        sw = swl = swd = 0.0
        for i in idxs:
            sw += bins[i][6]
            swl += bins[i][6] * bins[i][4]
            swd += bins[i][6] * bins[i][5]
        mean = swl / sw
        if abs(mean) >= thr and len(idxs) >= minp:
            out.append((g, bins[idxs[0]][0], bins[idxs[0]][1], bins[idxs[-1]][2], mean, len(idxs), sw, swd / sw))
    return out


def brute_breaks(bins, segments, minp):
    out = []
    for k in range(len(segments) - 1):
        a, b = segments[k], segments[k + 1]
        if a[0] != b[0]:
            continue
        for g in dict.fromkeys(x[3] for x in bins if x[3] not in M.NONGENES):
            own = [x for x in bins if x[3] == g]
            if own[0][0] != a[0]:
                continue
            left = [x for x in own if x[1] < a[2]]
            right = [x for x in own if x[1] >= a[2]]
            if len(left) >= minp and len(right) >= minp and left and right:
                out.append((g, a[0], a[2], b[1], len(left), len(right)))
    return out


def close(a, b):
    return all((x == y) if isinstance(x, (str, int)) else abs(x - y) < 1e-9 for x, y in zip(a, b)) and len(a) == len(b)


def main():
    genes = ("A", "B", "C")
    non = ("Antitarget", "-", "CGH")
    n_words = n_groups = n_gm = n_br = 0
    # 1. word enumeration / precondition
    for L in range(1, 6):
        brute = [w for w in itertools.product(non + genes, repeat=L) if brute_valid(w, genes)]
        assert brute == M.words(L, genes, non, minlen=L), L
        for w in itertools.product(non + genes, repeat=L):
            ok = all(
                not any(w[i] in genes and w[i] != g for i in range(w.index(g), L - w[::-1].index(g)))
                for g in genes
                if g in w
            )
            assert M.precondition(mkbins([w])) == ok, w
        n_words += len(brute)
    # a gene on two chromosomes breaks the precondition
    assert not M.precondition(mkbins([("A",), ("A",)]))
    assert M.precondition(mkbins([("A",), ("D",)]))
    # 2. groups: scan vs owner labelling, one and two chromosomes
    one = M.words(7, genes, ("Antitarget",)) + M.words(5, genes, non)
    second = [("Antitarget",), ("D",), ("D", "Antitarget", "D"), ("Antitarget", "D", "E", "E", "-")]
    for w in one:
        for ws in [[w]] + [[w, s] for s in second] + [[s, w] for s in second]:
            bins = mkbins(ws)
            assert M.precondition(bins), ws
            a, b = M.groups(bins), owner_groups(bins)
            assert a == b, (ws, a, b)
            assert sorted(i for _g, idxs in a for i in idxs) == list(range(len(bins))), ws
            n_groups += 1
            if len(ws) == 1 and len(w) <= 6:
                # 3. genemetrics
                for thr, minp in ((0.2, 1), (0.5, 2)):
                    want = brute_genemetrics(bins, thr, minp)
                    got = [
                        (r["gene"], r["chromosome"], r["start"], r["end"], r["log2"], r["probes"], r["weight"], r["depth"])
                        for r, _req in M.genemetrics_by_gene(bins, thr, minp)
                    ]
                    assert len(want) == len(got) and all(close(x, y) for x, y in zip(want, got)), (w, want, got)
                    n_gm += 1
                # 4. breaks (named-bin reading) over every cut into <= 3 segments
                for cuts in M.cuts(len(w), 3):
                    bounds = [0, *cuts, len(w)]
                    segs = [("chr1", bins[a][1], bins[b - 1][2], 0.0) for a, b in zip(bounds, bounds[1:])]
                    for minp in (1, 2):
                        assert sorted(M.breaks(bins, segs, minp, "named")) == sorted(brute_breaks(bins, segs, minp)), (w, cuts)
                        n_br += 1
    # custom non-gene set: ignoring B keeps the precondition and merges B into the stretches
    for w in M.words(5, genes, ("Antitarget",)):
        bins = mkbins([w])
        ng = M.NONGENES + ("B",)
        assert M.precondition(bins, ng)
        assert M.groups(bins, ng) == owner_groups(bins, ng), w
    print(f"selftest genes: {n_words} words, {n_groups} tables (groups), {n_gm} genemetrics, {n_br} breaks: formulations agree")
    return 0


if __name__ == "__main__":
    sys.exit(main())

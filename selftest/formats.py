"""Model-vs-model cross-examination for models/formats.py (C08).

* every writer against the separately written parser of the same format: parse(write(rows)) == rows for
  every one-row table of the full name x coordinate x label product and a set of multi-row tables;
* every 1-based writer against the BED writer: the two renderings of one table must differ by exactly +1
  in the start field and 0 in the end field (a second formulation of the conventions);
* chrom_rank / order_fault / sorted_rows against a brute-force check over all permutations of small tables
  (sorted_rows(perm) passes order_fault; any order that order_fault accepts is a permutation that is
  non-decreasing in (rank, start, end) and keeps equal names together).

Run:  cd /verif && /venv/bin/python -m selftest.formats        (exit 0 = all formulations agree)
"""
import itertools
import sys

from models import formats as F

NAMES = ["1", "2", "10", "X", "Y", "M", "chr1", "chr2", "chr10", "chrX", "chrY", "chrM", "chrUn_gl000220", "chr1_KI270706v1_random", "GL000192.1", "scaffold_7"]
COORDS = [0, 1, 2, 10, 99, 100, 299999999, 300000000]
LABELS = ["A", "-", "A,B", "x.y", "a-b"]
FLOATS = [0.0, 1e-7, 0.1234567891, -20.0, 123456.789, 1e10, 2.5e-310]


def row(c, s, e, g, i=0):
    return {"chromosome": c, "start": s, "end": e, "gene": g, "log2": FLOATS[i % 7], "depth": FLOATS[(i + 3) % 7], "gc": FLOATS[(i + 1) % 7], "ratio": FLOATS[(i + 2) % 7], "probes": 7 * i}


def pick(rows, cols):
    return [{c: r[c] for c in cols} for r in rows]


def check_table(rows):
    c3 = ["chromosome", "start", "end"]
    c4 = c3 + ["gene"]
    bad = []
    for n in (3, 4, 6):
        for track in (False, True):
            if F.parse_bed(F.write_bed(rows, n, track)) != pick(rows, c3 if n == 3 else c4):
                bad.append("bed%d" % n)
    for h in (False, True):
        if pick(F.parse_interval(F.write_interval(rows, h)), c4) != pick(rows, c4):
            bad.append("interval")
    if F.parse_text(F.write_text(rows)) != pick(rows, c3):
        bad.append("text")
    for sep in ("tab", "space"):
        if F.parse_text(F.write_text(rows, sep)) != pick(rows, c4):
            bad.append("text+label")
    for fl in ("gff3", "gtf"):
        if F.parse_gff(F.write_gff(rows, fl)) != pick(rows, c4):
            bad.append(fl)
    if F.parse_picard_hs(F.write_picard_hs(rows)) != pick(rows, c4 + ["gc", "depth", "ratio"]):
        bad.append("picardhs")
    cols = c4 + ["depth", "log2", "probes"]
    if F.parse_tab(F.write_tab(rows, cols)) != pick(rows, cols):
        bad.append("tab")
    for probes in (False, True):
        want = [("a", pick(rows, c3 + ["log2"] + (["probes"] if probes else []))), ("b", pick(rows[::-1], c3 + ["log2"] + (["probes"] if probes else [])))]
        if F.parse_seg(F.write_seg([("a", rows), ("b", rows[::-1])], probes)) != want:
            bad.append("seg")
    for sample in (False, True):
        if F.parse_vcf(F.write_vcf(rows, "sv", sample)) != pick(rows, c3):
            bad.append("vcf")
        if F.parse_vcf(F.write_vcf(rows, "snv", sample)) != [{"chromosome": r["chromosome"], "start": r["start"], "end": None} for r in rows]:
            bad.append("vcf-snv")
    # second formulation of the conventions: field-wise difference from the BED rendering
    bed = [ln.split("\t") for ln in F.write_bed(rows, 3).splitlines()]
    one_based = {
        "interval": [ln.split("\t")[:3] for ln in F.write_interval(rows).splitlines()],
        "gff": [[f[0], f[3], f[4]] for f in (ln.split("\t") for ln in F.write_gff(rows, "gtf").splitlines())],
        "seg": [ln.split("\t")[1:4] for ln in F.write_seg([("a", rows)], False).splitlines()[1:]],
        "picardhs": [ln.split("\t")[:3] for ln in F.write_picard_hs(rows).splitlines()[1:]],
        "text": [[ln.split(":")[0]] + ln.split(":")[1].split("-") for ln in F.write_text(rows).splitlines()],
        "vcf": [[f[0], f[1], f[7].replace("SVTYPE=DEL", "").replace("END=", "").strip(";")] for f in (ln.split("\t") for ln in F.write_vcf(rows).splitlines() if ln[0] != "#")],
    }
    for name, trip in one_based.items():
        for b, t in zip(bed, trip):
            if not (b[0] == t[0] and int(t[1]) - int(b[1]) == 1 and int(t[2]) == int(b[2])):
                bad.append("convention:" + name)
    return bad


def brute_order_ok(coords):
    """Definition by quantifiers: for every i<j the pair is in order, and equal names are contiguous."""
    names = [c[0] for c in coords]
    for i in range(len(coords)):
        for j in range(i + 1, len(coords)):
            a, b = coords[i], coords[j]
            if a[0] == b[0]:
                if any(names[k] != a[0] for k in range(i, j)):
                    return False
                if (a[1], a[2]) > (b[1], b[2]):
                    return False
            else:
                ra, rb = F.chrom_rank(a[0]), F.chrom_rank(b[0])
                if ra > rb:
                    return False
    return True


def main():
    n = bad = 0
    for c in NAMES:
        for s in COORDS:
            for e in COORDS:
                if s < e:
                    for g in LABELS:
                        n += 1
                        b = check_table([row(c, s, e, g, n)])
                        if b:
                            bad += 1
                            print("MISMATCH", c, s, e, g, b)
    multi = []
    for names in (["1", "2", "10", "X", "Y", "M"], ["chr2", "chrM", "chrUn_gl000220", "scaffold_7", "GL000192.1"]):
        for comb in itertools.permutations(names, 3):
            multi.append([row(c, 10 * i, 10 * i + 7, LABELS[i], i) for i, c in enumerate(comb)])
    for rows in multi:
        n += 1
        b = check_table(rows)
        if b:
            bad += 1
            print("MISMATCH", [r["chromosome"] for r in rows], b)
    # ordering model
    expect_rank = ["1", "chr2", "10", "chrX", "Y", "chrM"]
    assert [F.chrom_rank(x) for x in expect_rank] == sorted(F.chrom_rank(x) for x in expect_rank)
    assert len({F.chrom_rank(x) for x in expect_rank}) == 6
    assert all(F.chrom_rank(x) == (3, 0) for x in ("chrUn_gl000220", "chr1_KI270706v1_random", "GL000192.1", "scaffold_7"))
    assert F.chrom_rank("chr10") == F.chrom_rank("10") and F.is_canonical("chrM") and not F.is_canonical("scaffold_7")
    m = 0
    pool = [("1", 0, 2), ("1", 0, 10), ("1", 1, 2), ("10", 0, 2), ("2", 5, 6), ("X", 0, 1), ("M", 0, 1), ("scaffold_7", 0, 1), ("GL000192.1", 3, 4), ("GL000192.1", 0, 9)]
    for k in (1, 2, 3, 4):
        for comb in itertools.combinations(pool, k):
            rows = [{"chromosome": c, "start": s, "end": e} for c, s, e in comb]
            for perm in itertools.permutations(rows):
                m += 1
                co = [(r["chromosome"], r["start"], r["end"]) for r in perm]
                if (F.order_fault(co) is None) != brute_order_ok(co):
                    bad += 1
                    print("ORDER MISMATCH", co, F.order_fault(co))
                so = F.sorted_rows(list(perm))
                if F.order_fault([(r["chromosome"], r["start"], r["end"]) for r in so]) is not None:
                    bad += 1
                    print("sorted_rows not accepted", so)
    # 6 significant digits
    assert F.same_6_digits(0.1234567891, 0.123457) and not F.same_6_digits(0.1234567891, 0.123458)
    assert F.same_6_digits(123456.789, 123457.0) and not F.same_6_digits(123456.789, 123456.0)
    assert F.same_6_digits(2.5e-310, 2.5e-310) and not F.same_6_digits(2.5e-310, 0.0) and F.same_6_digits(0.0, 0) and F.same_6_digits(1e10, 10000000000)
    print(f"formats selftest: {n} tables x all formats, {m} orders; mismatches: {bad}")
    return 1 if bad else 0


if __name__ == "__main__":
    sys.exit(main())

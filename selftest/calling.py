"""Cross-examination of models/calling.py: every model function against a second, differently shaped formulation.

    /venv/bin/python -m selftest.calling        (exit 0 = the two formulations agree on the whole alphabet)

* closed-form inverse of the mixing model vs. bisection of the forward formula, on every (n, p, r, x) the checks use;
* the r/x table vs. a table written out by hand for ploidy 2 and 4;
* nearest_integers vs. decimal arithmetic; threshold_cn (count) vs. threshold_cn_scan (bisect + exact fractions);
* PAR classification vs. a per-base membership test near every PAR edge.
"""
import itertools
import math
import sys
from decimal import ROUND_HALF_DOWN, ROUND_HALF_UP, Decimal

from models import calling as M


def main():
    n_checked = 0
    purities = [k / 100 for k in range(1, 101)] + [1 / 3, 1 / 7, math.pi / 4]
    for ploidy in range(1, 7):
        for cls in ("auto", "x", "y", "parx", "pary"):
            for male, fem in itertools.product((False, True), repeat=2):
                rx = M.copies(cls, ploidy, male, fem)
                if rx is None or not rx[0]:
                    continue
                r, x = rx
                for p in purities:
                    for n in range(13):
                        v = M.mixing_log2(n, p, r, x)
                        if v is None:
                            assert p * n + (1 - p) * x == 0
                            continue
                        a = M.invert_mixing(v, p, r, x)
                        b = M.invert_mixing_bisect(v, p, r, x)
                        assert abs(a - n) < 1e-9 and abs(b - n) < 1e-9, (ploidy, cls, male, fem, p, n, a, b)
                        n_checked += 1
    # hand-written r/x table (ploidy 2 and 4): (class, male reference, female sample) -> (r, x) in units of ploidy/2
    hand = {
        ("auto", 0, 0): (2, 2), ("auto", 0, 1): (2, 2), ("auto", 1, 0): (2, 2), ("auto", 1, 1): (2, 2),
        ("x", 0, 0): (2, 1), ("x", 0, 1): (2, 2), ("x", 1, 0): (1, 1), ("x", 1, 1): (1, 2),
        ("y", 0, 0): (1, 1), ("y", 0, 1): (1, 0), ("y", 1, 0): (1, 1), ("y", 1, 1): (1, 0),
        ("parx", 0, 0): (2, 2), ("parx", 1, 1): (2, 2), ("parx", 1, 0): (2, 2), ("parx", 0, 1): (2, 2),
        ("pary", 0, 0): (0, 0), ("pary", 1, 1): (0, 0), ("pary", 1, 0): (0, 0), ("pary", 0, 1): (0, 0),
    }  # fmt: skip
    for (cls, male, fem), (r, x) in hand.items():
        for ploidy in (2, 4, 6):
            u = ploidy // 2
            assert M.copies(cls, ploidy, bool(male), bool(fem)) == (r * u, x * u), (cls, male, fem, ploidy)
            n_checked += 1
    for ploidy in (1, 3, 5):
        assert M.copies("y", ploidy, False, False) is None and M.copies("x", ploidy, True, True) is None
        assert M.copies("x", ploidy, False, True) == (ploidy, ploidy)
        assert M.copies("auto", ploidy, True, False) == (ploidy, ploidy)
    # nearest integers
    for k in range(0, 14):
        for d in ("0", "-0.25", "0.25", "-0.49", "0.49", "-0.5", "0.5", "0.1", "-0.1"):
            val = Decimal(k) + Decimal(d)
            if val <= 0:
                continue
            up = int(val.quantize(Decimal(1), rounding=ROUND_HALF_UP))
            down = int(val.quantize(Decimal(1), rounding=ROUND_HALF_DOWN))
            assert M.nearest_integers(float(val)) == {up, down}, (k, d)
            for r in range(1, 7):
                got = M.nearest_integers(r * 2.0 ** math.log2(float(val) / r))
                assert got == {up, down}, (k, d, r, got)
            n_checked += 1
    # threshold step function: two formulations, all subsets of the grid, a dense log2 lattice, every (r, ploidy)
    grid = [-2, -1.1, -0.5, -0.25, 0, 0.2, 0.7, 1.2]
    vecs = [(-1.1, -0.25, 0.2, 0.7), tuple(math.log2((i + 0.5) / 6) for i in range(12))]
    for k in range(1, len(grid) + 1):
        vecs += list(itertools.combinations(grid, k))
    for vec in vecs:
        pts = [float("nan"), vec[0] - 1]
        for t in vec:
            pts += [t, math.nextafter(t, -math.inf), math.nextafter(t, math.inf), t - 1e-9, t + 1e-9]
        pts += [i / 8 for i in range(-40, 41)]
        for ploidy in range(1, 7):
            for r in {ploidy, ploidy // 2}:
                for v in pts:
                    a = M.threshold_cn(v, vec, r, ploidy)
                    b = M.threshold_cn_scan(v, vec, r, ploidy)
                    assert a == b, (vec, ploidy, r, v, a, b)
                    n_checked += 1
    # ceil ambiguity zone: exact points open, +-1e-9 in log2 decisive
    for r in range(1, 7):
        for k in range(1, 15):
            v = math.log2(k / r)
            assert M.ceil_integers(r * 2.0**v) == {k, k + 1}
            assert M.ceil_integers(r * 2.0 ** (v + 1e-9)) == {k + 1}
            assert M.ceil_integers(r * 2.0 ** (v - 1e-9)) == {k}
            n_checked += 1
    # PAR classification vs per-base membership
    for genome, par in M.PAR.items():
        for kind in ("x", "y"):
            chrom = "chr" + kind.upper()
            inside = lambda b: any(s <= b < e for s, e in par[kind])  # noqa: E731
            for s0, e0 in par[kind]:
                for edge in (s0, e0):
                    for start in range(edge - 3, edge + 4):
                        for width in (1, 2, 3):
                            bases = [inside(b) for b in range(start, start + width)]
                            want = ("par" + kind) if all(bases) else (kind + "-straddle") if any(bases) else kind
                            assert M.bin_class(chrom, start, start + width, genome) == want, (genome, kind, start, width)
                            assert M.bin_class(chrom, start, start + width, None) == kind
                            n_checked += 1
            # a bin spanning both PARs' gap is inside neither
            (s1, e1), (s2, e2) = par[kind]
            assert M.bin_class(chrom, s1, e2, genome) == kind + "-straddle"
    assert M.bin_class("chr1", 60000, 60100, "grch37") == "auto" and M.bin_class("X", 60000, 60100, "grch37") == "parx"
    print(f"selftest.calling: {n_checked} comparisons, all agree")
    return 0


if __name__ == "__main__":
    sys.exit(main())

"""Cross-examination of models/fixref.py (no cnvlib involved).

1. Edge covariate: the closed formulas of `edge_values` against a differently shaped derivation - the
   "ramp" picture behind them: a bait edge loses / a neighbouring bait spills coverage
   f(x) = (1 - x/i)/2 at distance x in [0, i] from the edge; loss = integral of f over the part of both
   ramps that lies inside the tile, gain = integral of the neighbour's outside ramp over the tile, all
   divided by the tile size.  f is linear, so the midpoint rule integrates it exactly.  Every tile size
   and gap of a grid around the insert size, one and two neighbours.
2. `median` against numpy on every list of <= 5 values from a small alphabet; `genomic_sorted` against
   an independent comparison sort on every permutation of a mixed-chromosome table.
3. `ref_fails` against an interval-membership formulation on a value grid including both sides of and
   exactly on every bound; `refusal` against a pairwise brute force.
4. `expected`: permuting any input leaves the result unchanged; a class of one bin ends at base =
   -reference log2 when a correction acts on it; bins are emitted iff their reference bin passes.
5. The comparison helpers are not vacuous: corrupted outputs (one value shifted, a weight out of range,
   a weight order inverted) are rejected by `class_constant_spread` / `weight_faults`.

Run:  /venv/bin/python -m selftest.fixref     (from /verif; exits 0 and prints the counts)
"""
import functools
import itertools
import os
import sys

import numpy as np

sys.path.insert(0, os.path.dirname(os.path.dirname(os.path.abspath(__file__))))
from models import fixref as M  # noqa: E402


def ramp_integral(a, b, i):
    """Integral of f(x) = (1 - x/i)/2 over [a, b] clipped to [0, i] (midpoint rule, exact for linear f)."""
    a, b = max(a, 0.0), min(b, float(i))
    if b <= a:
        return 0.0
    mid = 0.5 * (a + b)
    return (b - a) * 0.5 * (1 - mid / i)


def edge_by_ramps(bins, i=M.INSERT_SIZE):
    out = []
    for b in bins:
        t = b["end"] - b["start"]
        loss = 2 * ramp_integral(0, t, i) / t
        gain = 0.0
        same = sorted([x for x in bins if x["chromosome"] == b["chromosome"]], key=lambda x: (x["start"], x["end"]))
        k = same.index(b)
        for nb in ([same[k - 1]] if k > 0 else []) + ([same[k + 1]] if k + 1 < len(same) else []):
            g = (b["start"] - nb["end"]) if nb["start"] < b["start"] else (nb["start"] - b["end"])
            if g < i:
                g = max(0, g)
                gain += ramp_integral(g, g + t, i) / t
        out.append(gain - loss)
    return out


def rolling_median_py(x, frac):
    """Mirrored-edge rolling median, half-window max(ceil(n*frac/2), 3) capped at n-1 (selftest only)."""
    import math

    n = len(x)
    wing = min(max(int(math.ceil(n * frac * 0.5)), 3), n - 1)
    pad = x[wing - 1::-1] + x + x[:-wing - 1:-1]
    return [M.median(pad[k:k + 2 * wing + 1]) for k in range(n)]


def main():
    counts = {}
    # 1. edge formula
    n = 0
    sizes = [1, 40, 120, 125, 130, 249, 250, 251, 300, 500, 1000]
    gaps = [-30, 0, 1, 100, 129, 130, 131, 249, 250, 251, 400]
    for t in sizes:
        lone = [{"chromosome": "c", "start": 1000, "end": 1000 + t}]
        assert abs(M.edge_values(lone)[0] - edge_by_ramps(lone)[0]) < 1e-12
        for t2 in sizes:
            for g in gaps:
                two = lone + [{"chromosome": "c", "start": 1000 + t + g, "end": 1000 + t + g + t2}]
                if g < 0 and two[1]["start"] < two[0]["start"]:
                    continue
                a, b = M.edge_values(two), edge_by_ramps(two)
                assert all(abs(x - y) < 1e-12 for x, y in zip(a, b)), (two, a, b)
                n += 1
                for g2 in (0, 100, 300):
                    three = two + [{"chromosome": "c", "start": two[1]["end"] + g2, "end": two[1]["end"] + g2 + 260}]
                    other = {"chromosome": "d", "start": 10, "end": 10 + t}
                    for tab in (three, three + [other], [other] + three[::-1]):
                        a, b = M.edge_values(tab), edge_by_ramps(tab)
                        assert all(abs(x - y) < 1e-12 for x, y in zip(a, b)), (tab, a, b)
                        n += 1
    counts["edge tables"] = n
    # hand-picked identities (the documented special cases)
    i = M.INSERT_SIZE
    assert abs(M.edge_values([{"chromosome": "c", "start": 0, "end": i}])[0] + 0.5) < 1e-12  # t = i: loss 1/2
    assert abs(M.edge_values([{"chromosome": "c", "start": 0, "end": 2 * i}])[0] + 0.25) < 1e-12
    # 2. median, ordering
    n = 0
    for k in range(1, 6):
        for xs in itertools.product([-1.5, 0.0, 0.25, 2.0], repeat=k):
            assert M.median(list(xs)) == float(np.median(xs))
            n += 1
    counts["median lists"] = n
    names = ["chr1", "chr2", "chr10", "chrX", "chrY"]
    rank = {c: k for k, c in enumerate(names)}

    def cmp(a, b):
        ka = (rank[a["chromosome"]], a["start"], a["end"])
        kb = (rank[b["chromosome"]], b["start"], b["end"])
        return (ka > kb) - (ka < kb)

    tab = [{"chromosome": c, "start": s, "end": s + w} for c in names for s, w in ((5, 3), (5, 9))][:7]
    n = 0
    for p in itertools.permutations(tab):
        assert M.genomic_sorted(list(p)) == sorted(p, key=functools.cmp_to_key(cmp))
        n += 1
    counts["orderings"] = n
    assert [M.is_autosome(c) for c in names] == [True, True, True, False, False]
    # 3. filters, refusal
    n = 0
    grid = {
        "log2": [-20.0, -5.5, -5.0000001, -5.0, -4.9999999, 0.0, 4.9999999, 5.0, 5.0000001, 5.5],
        "spread": [0.0, 0.5, 0.9999999, 1.0, 1.0000001, 2.0],
        "depth": [0.0, 1e-12, 1.0],
        "gc": [None, 0.0, 0.2999999, 0.3, 0.3000001, 0.5, 0.6999999, 0.7, 0.7000001, 1.0],
    }
    for log2, spread, depth, gc in itertools.product(*grid.values()):
        r = {"log2": log2, "spread": spread, "depth": depth}
        if gc is not None:
            r["gc"] = gc
        inside = (-5 <= log2 <= 5) and (0 <= spread <= 1) and depth > 0 and (gc is None or 0.3 <= gc <= 0.7)
        assert (not M.ref_fails(r)) == inside, r
        n += 1
    counts["filter grid"] = n
    base = [{"chromosome": "chr1", "start": s, "end": s + 10} for s in (0, 20, 40)]
    n = 0
    for tgt in itertools.product(base + [{"chromosome": "chr1", "start": 1, "end": 10}], repeat=2):
        for ref in itertools.product(base, repeat=3):
            tgt, ref = list(tgt), list(ref)
            want = set()
            if any(M.coord(a) == M.coord(b) for a, b in itertools.combinations(tgt, 2)):
                want.add("duplicate-in-sample-target")
            if any(M.coord(a) == M.coord(b) for a, b in itertools.combinations(ref, 2)):
                want.add("duplicate-in-reference")
            if any(all(M.coord(a) != M.coord(r) for r in ref) for a in tgt):
                want.add("missing-from-reference-target")
            assert set(M.refusal(tgt, [], ref)) == want
            n += 1
    counts["refusal tables"] = n
    # 4. expected(): permutation invariance, kept set, one-bin class
    T = [("chr1", 1000, 1300), ("chr1", 1400, 1810), ("chr2", 1000, 1340), ("chr2", 3000, 3450), ("chr10", 100, 730)]
    A = [("chr1", 2000, 4900), ("chr2", 3500, 6900)]
    gcs = [0.41, 0.58, 0.36, 0.63, 0.47, 0.52, 0.33]
    rms = [0.15, 0.62, 0.33, 0.08, 0.47, 0.71, 0.26]
    ref, tgt, anti = [], [], []
    for k, (c, s, e) in enumerate(T + A):
        is_t = k < len(T)
        ref.append({"chromosome": c, "start": s, "end": e, "gene": "g", "log2": 0.1 * k - 0.2, "depth": 1.0, "spread": 0.1 + 0.03 * ((k * 3) % 7), "gc": gcs[k], "rmask": rms[k]})
        (tgt if is_t else anti).append({"chromosome": c, "start": s, "end": e, "gene": "g", "log2": 5.0 + 0.37 * ((k * 5) % 7), "depth": 30.0})
    ref[1]["gc"] = 0.2  # one filtered bin
    n = 0
    for corr in itertools.product((False, True), repeat=3):
        want, info = M.expected(tgt, anti, ref, *corr, 0.5, rolling_median_py)
        assert [M.coord(b) for b in want] == [M.coord(b) for b in M.genomic_sorted(tgt + anti) if M.coord(b) != M.coord(ref[1])]
        assert not info["tie"] and list(info["dropped"]) == [M.coord(ref[1])]
        for p in itertools.permutations(range(len(tgt))):
            got, _ = M.expected([tgt[k] for k in p], anti[::-1], ref[::-1], *corr, 0.5, rolling_median_py)
            assert [M.coord(b) for b in got] == [M.coord(b) for b in want]
            assert all(abs(x["base"] - y["base"]) < 1e-12 for x, y in zip(got, want))
            n += 1
        one, info1 = M.expected(tgt, anti[:1], ref, *corr, 0.5, rolling_median_py)
        if info1["applied"]["antitarget"]:
            b = [x for x in one if x["cls"] == "antitarget"][0]
            assert abs(b["base"] + ref[len(T)]["log2"]) < 1e-12
    counts["expected() permutations"] = n
    # 5. helpers reject corrupted outputs
    want, _ = M.expected(tgt, anti, ref, False, False, False, 0.5, rolling_median_py)
    obs = [dict(b, log2=b["base"] + (0.3 if b["cls"] == "target" else -0.1), weight=max(1e-4, min(1.0, 0.9 - b["spread"] + 1e-4 * b["size"] ** 0.5))) for b in want]
    assert all(s < 1e-12 for s, _ in M.class_constant_spread(obs, want).values())
    assert not M.weight_faults(obs, want)
    n = 0
    for k in range(len(obs)):
        bad = [dict(o) for o in obs]
        bad[k]["log2"] += 1e-6
        cls = want[k]["cls"]
        if sum(1 for b in want if b["cls"] == cls) > 1:
            assert M.class_constant_spread(bad, want)[cls][0] > 1e-9
            n += 1
        for w in (0.0, 5e-5, 1.0001, float("nan")):
            bad = [dict(o) for o in obs]
            bad[k]["weight"] = w
            assert M.weight_faults(bad, want)[0][0] == "range"
            n += 1
    # invert one comparable pair
    pairs = [
        (a, b)
        for a in range(len(obs))
        for b in range(len(obs))
        if a != b and want[a]["cls"] == want[b]["cls"] and want[a]["size"] >= want[b]["size"] and want[a]["spread"] <= want[b]["spread"]
    ]
    assert pairs
    for a, b in pairs:
        bad = [dict(o) for o in obs]
        bad[a]["weight"], bad[b]["weight"] = 0.2, 0.6
        assert any(f[0] != "range" for f in M.weight_faults(bad, want))
        n += 1
    counts["corrupted outputs rejected"] = n
    assert abs(M.centre_of([{"chromosome": "chr1", "log2": 1.0}, {"chromosome": "chr1", "log2": 3.0}, {"chromosome": "chr2", "log2": 0.0}, {"chromosome": "chrX", "log2": 99.0}]) - 1.0) < 1e-12
    print("selftest.fixref ok:", ", ".join(f"{k}={v}" for k, v in counts.items()))
    return 0


if __name__ == "__main__":
    sys.exit(main())

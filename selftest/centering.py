"""Cross-examination of models/centering.py (DESIGN section 4 rule 5).

Each piece of the C15 reference model is compared with a second, differently shaped formulation:

  names        character test            vs. the regular expression ^(chr)?[0-9]+$
  PAR          containment arithmetic     vs. base sets over a coarse coordinate grid, and a hand-written truth table
  selection    index bookkeeping          vs. a NumPy boolean-mask formulation
  estimators   candidate sets (fsum/lists) vs. NumPy / SciPy (np.median, np.mean, vectorised biweight, gaussian_kde argmax)
  sex levels   log2(copies / reference)   vs. the four-entry table of the statement
  noise        NormalDist.inv_cdf         vs. scipy.stats.norm.ppf; bijectivity, symmetry, spread, typicality of every
                                          arrangement the check uses

No cnvlib import.  Run:  /venv/bin/python -m selftest.centering      (exit status 0 = all agree)
"""
import itertools
import math
import re
import sys

import numpy as np
from scipy import stats as sps

from models import centering as C
from selftest.stats import np_biweight_location

NAMES = ["1", "2", "22", "chr1", "chr22", "chr01", "X", "Y", "chrX", "chrY", "MT", "chrM", "chr", "", "1a", "chr1_gl000191_random", "GL000191.1", "2L", "I", "chrUn_gl000220", "23", "chr 1", "c1", "1 "]
LEVELS = (0.0, -1.0, 0.4, 2.0)
OFFSETS = (0.0, 0.1, -0.25)


def close(a, b, tol=1e-9):
    return abs(a - b) <= tol * max(1.0, abs(a), abs(b))


def np_estimate(est, xs):
    a = np.asarray(xs, float)
    if len(a) == 1:
        return float(a[0])
    if est == "median":
        return float(np.median(a))
    if est == "mean":
        return float(np.mean(a))
    if est == "biweight":
        return float(a[0]) if a.max() == a.min() else np_biweight_location(a)
    if a.max() == a.min():
        return float(a[0])
    s = np.sort(a)
    return float(s[sps.gaussian_kde(s).evaluate(s).argmax()])


def main():
    fails = []
    n_checked = 0

    def expect(ok, what, *ctx):
        nonlocal n_checked
        n_checked += 1
        if not ok and len(fails) < 20:
            fails.append((what,) + ctx)

    # ---- names
    rx = re.compile(r"^(chr)?[0-9]+$")
    for nm in NAMES:
        expect(C.is_autosome_name(nm) == bool(rx.match(nm)), "autosome name", nm)
    expect(C.naming_style(["chr1", "chrX"]) == "chr" and C.naming_style(["1", "X"]) == "" and C.naming_style(["chr1", "X"]) is None, "naming style")

    # ---- PAR: truth table for the bin kinds of the alphabet, and base sets on a 10 kb grid around the boundaries
    truth = {
        ("par1", "grch37"): "inside", ("par1", "grch38"): "inside",
        ("non", "grch37"): "outside", ("non", "grch38"): "outside",
        ("par2_grch37", "grch37"): "inside", ("par2_grch37", "grch38"): "outside",
        ("par2_grch38", "grch37"): "outside", ("par2_grch38", "grch38"): "inside",
    }
    for (kind, genome), want in truth.items():
        for st in C.X_BIN_STARTS[kind]:
            expect(C.par_x_status(genome, st, st + C.BIN_LEN) == want, "PAR status of alphabet bin", kind, genome, st)
    published = {"grch37": [(60001, 2699520), (154931044, 155260560)], "grch38": [(10001, 2781479), (155701383, 156030895)]}
    for genome, regs in published.items():
        for lo1, hi1 in regs:  # 1-based inclusive
            for start in range(lo1 - 1 - 3, lo1 - 1 + 4):
                for end in (start + 1, start + 2, hi1 - 1, hi1, hi1 + 1):
                    if end <= start:
                        continue
                    bases = range(start + 1, end + 1)  # 1-based positions of the half-open bin
                    n_in = sum(1 for b in (bases[0], bases[-1]) if lo1 <= b <= hi1)
                    all_in = bases[0] >= lo1 and bases[-1] <= hi1
                    any_in = bases[0] <= hi1 and bases[-1] >= lo1
                    want = "inside" if all_in else ("straddles" if any_in else "outside")
                    expect(C.par_x_status(genome, start, end) == want, "PAR status at a boundary", genome, start, end, n_in)

    # ---- selection + estimators over small tables
    def tables():
        for names in (("1",), ("1", "2"), ("1", "2", "3"), ("1", "X"), ("1", "2", "X", "Y"), ("X",), ("I", "II")):
            for shape in ((1, 1, 1, 1), (2, 2, 2, 2), (3, 1, 2, 3), (1, 2, 3, 1)):
                for lv in itertools.product(LEVELS, repeat=min(len(names), 2)):
                    rows = []
                    for ci, nm in enumerate(names):
                        for i in range(shape[ci]):
                            start = (300000 if nm == "X" and i == 0 else 20_000_000) + i * 10000
                            rows.append((nm, start, start + 2000, lv[ci % len(lv)] + OFFSETS[i], False))
                    yield rows
                    if len(rows) > 1:
                        rows2 = list(rows)
                        rows2[0] = rows2[0][:3] + (-20.0, True)
                        yield rows2

    for rows in tables():
        chrom = np.array([r[0] for r in rows])
        null = np.array([r[4] for r in rows])
        vals = np.array([r[3] for r in rows])
        for genome in (None, "grch37"):
            for skip_low in (False, True):
                sel = C.centering_selection(rows, genome, skip_low)
                auto = np.array([bool(re.match(r"^(chr)?\d+$", c)) for c in chrom])
                par = np.array([genome is not None and r[0] == "X" and r[1] >= 60000 and r[2] <= 2699520 for r in rows])
                keep = (auto | par) & ~(null & skip_low)
                want = {}
                for c in dict.fromkeys(chrom[keep]):
                    want[c] = list(np.flatnonzero(keep & (chrom == c)))
                expect({c: idx for c, idx in sel["groups"]} == want and [c for c, _ in sel["groups"]] == list(want), "selection groups", rows, genome, skip_low)
                status = "no-autosome-names" if not auto.any() else ("autosomes" if (auto & keep).any() else "autosome-bins-all-null")
                expect(sel["status"] == status, "selection status", rows, genome, skip_low, sel["status"], status)
                groups = [[float(vals[i]) for i in idx] for _c, idx in sel["groups"]]
                if not groups:
                    continue
                for est in C.ESTIMATORS:
                    for by_chrom in (True, False):
                        cands = C.two_level_candidates(est, groups, by_chrom)
                        if by_chrom:
                            ref = np_estimate(est, [np_estimate(est, g) for g in groups])
                        else:
                            ref = np_estimate(est, [v for g in groups for v in g])
                        expect(any(close(ref, c, 1e-9) for c in cands), "two-level estimate", est, by_chrom, groups, cands, ref)
                        deg = C.degenerate_inputs(est, groups, by_chrom)
                        if by_chrom:
                            firsts = [np_estimate(est, g) for g in groups]
                            want_deg = any(len(g) > 1 and max(g) == min(g) for g in groups) or (len(groups) > 1 and est in ("median", "mean") and max(firsts) == min(firsts))
                        else:
                            pooled = [v for g in groups for v in g]
                            want_deg = len(pooled) > 1 and max(pooled) == min(pooled)
                        expect(bool(deg) or not want_deg, "degenerate inputs found", est, by_chrom, groups, deg)

    # ---- sex levels
    table = {("male", True): 0.0, ("female", True): 1.0, ("male", False): -1.0, ("female", False): 0.0}
    for (sex, ref), want in table.items():
        expect(C.expected_x_level(sex, ref) == want, "expected X level", sex, ref)
        expect(C.x_adjustment(sex, ref) == -want, "X adjustment", sex, ref)
    rows = [("chr1", 0, 1, 0.0, False), ("chrX", 0, 1, 0.0, False), ("chrY", 0, 1, 0.0, False), ("chrM", 0, 1, 0.0, False)]
    expect(C.expected_flat(rows, True) == [0.0, -1.0, -1.0, 0.0] and C.expected_flat(rows, False) == [0.0, 0.0, -1.0, 0.0], "flat expectation")

    # ---- noise alphabet
    for n in (43, 240, 250, 1440, 3440):
        q = C.normal_quantiles(n, 0.3)
        ref = 0.3 * sps.norm.ppf((np.arange(n) + 0.5) / n)
        expect(all(close(a, float(b), 1e-12) for a, b in zip(q, ref)), "quantiles vs scipy", n)
        expect(all(close(q[i], -q[n - 1 - i], 1e-12) for i in range(n)), "quantile grid symmetric", n)
        if n >= 200:
            expect(abs(C.sample_summary(q)["sd"] / 0.3 - 1) < 0.02, "quantile grid sd", n)
        for r in range(len(C.RATIOS)):
            a = C.multiplier(n, r)
            for k in range(7):
                perm = C.affine_permutation(n, a, C.offset(n, k))
                expect(sorted(perm) == list(range(n)), "affine map is a permutation", n, r, k)
            expect(sorted(C.noise_vector(n, 0.3, r, 3)) == sorted(q), "noise vector is a rearrangement of the grid", n, r)
    worst = 0.0
    for na in (200, 1000, 3000):
        for nx in (40, 41, 64, 100, 250, 400):
            for ny in (0, 3, 10, 40):
                for npar in (0, 10):
                    for r in range(len(C.RATIOS)):
                        for k in range(7):
                            rows, noise = C.sex_sample_rows("male", False, na, nx, ny, 1.0, r, k, par_genome="grch38" if npar else None, n_par=npar)
                            nz_a = noise[:na]
                            nz_x = noise[na + npar : na + npar + nx]
                            dev = abs(C.sample_summary(nz_x)["median"] - C.sample_summary(nz_a)["median"]) * math.sqrt(nx)
                            worst = max(worst, dev)
                            expect(dev <= 1.5, "arrangement typical: |median X - median autosomes| <= 1.5 sd/sqrt(n_X)", na, nx, ny, npar, r, k, dev)
                            expect(0.85 <= C.sample_summary(nz_x)["sd"] <= 1.25, "X noise spread within 0.85..1.25 sd", na, nx, r, k)
                            expect(len(rows) == na + npar + nx + ny, "sample size")
    print(f"selftest.centering: {n_checked} comparisons, {len(fails)} disagreements (worst median offset of an arrangement: {worst:.2f} sd/sqrt(n_X))")
    for f in fails:
        print("  DISAGREE", f)
    return 1 if fails else 0


if __name__ == "__main__":
    sys.exit(main())

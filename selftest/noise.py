"""Cross-examination of mc/noise.py (the deterministic noise alphabet of C11; DESIGN section 4 rule 5).

Every claim the C11 check relies on is re-derived differently, over every length the check can ask for:
  * the quantiles: ascending, antisymmetric, and Phi(q_i) = (i + 1/2)/n with Phi written through math.erf
    (the module uses statistics.NormalDist.inv_cdf);
  * every arrangement is a permutation of 0..n-1 (so the marginal distribution is exactly the stated one), and
    two different names never give the same sequence;
  * the realised standard deviation is never above the nominal one and at least 0.97 of it for n >= 100;
  * the modular-inverse arrangement is rebuilt from its definition with Fermat inverses x^(p-2), each verified by
    multiplication and, for small p, by brute-force search;
  * the measured smoothness figures quoted in the module docstring (affine window sums well below the
    white-noise value, modular-inverse ones near it).
No cnvlib import, no random numbers.  Run:  /venv/bin/python -m selftest.noise      Exit status 0 = all agree.
"""
import math
import sys

from mc import noise as N


def phi(x):
    return 0.5 * (1.0 + math.erf(x / math.sqrt(2.0)))


def lengths():
    # every chromosome length the C11 tiers build (sums of two sides, flat controls), plus small and odd ones
    sides = [100, 120, 150, 200, 250, 280, 400]
    out = {a + b for a in sides for b in sides} | {100, 101, 102, 150, 250, 400, 600} | set(range(2, 40)) | {97, 127, 128, 211, 997, 1200}
    return sorted(out)


def window_sd_ratio(x, w):
    """sd of sums over every window of w consecutive values, relative to sqrt(w) * sd(x) (1 for white noise)."""
    n = len(x)
    m = sum(x) / n
    sd = math.sqrt(sum((v - m) ** 2 for v in x) / n)
    sums = [sum(x[i : i + w]) for i in range(0, n - w)]
    ms = sum(sums) / len(sums)
    return math.sqrt(sum((s - ms) ** 2 for s in sums) / len(sums)) / (math.sqrt(w) * sd)


def main():
    bad = []
    names = N.arrangement_names(4, km=12)
    checked = 0
    for n in lengths():
        q = N.unit_quantiles(n)
        if any(q[i] >= q[i + 1] for i in range(n - 1)):
            bad.append(("quantiles not ascending", n))
        if any(abs(q[i] + q[n - 1 - i]) > 1e-12 for i in range(n)):
            bad.append(("quantiles not antisymmetric", n))
        if any(abs(phi(q[i]) - (i + 0.5) / n) > 1e-12 for i in range(n)):
            bad.append(("Phi(q_i) != (i+1/2)/n", n))
        ratio = math.sqrt(sum(z * z for z in q) / n)
        if ratio > 1.0 or (n >= 100 and ratio < 0.97):
            bad.append(("realised sd / nominal sd out of (0.97, 1]", n, ratio))
        seen = {}
        for name in names:
            perm = N.permutation(n, name)
            checked += 1
            if sorted(perm) != list(range(n)):
                bad.append(("not a permutation", n, name))
            key = tuple(perm)
            if n >= 100 and key in seen:
                bad.append(("two names, one sequence", n, name, seen[key]))
            seen.setdefault(key, name)
            x = N.noise(n, 0.1, name)
            if sorted(x) != [0.1 * z for z in q]:
                bad.append(("noise is not the quantile multiset", n, name))
        # modular inverse by multiplication and by brute force
        p = N.next_prime(n)
        if p <= n or any(p % d == 0 for d in range(2, p)) or any(all(c % d for d in range(2, c)) for c in range(n + 1, p)):
            bad.append(("next_prime", n, p))
        for j in (0, 1, 2):
            a = N.multipliers(p, j + 1)[j]
            b = N.offsets(p)[j % 3]
            if n >= 10 and not (0.382 * p <= a < p):
                bad.append(("multiplier out of range", n, a))
            # Fermat's little theorem instead of pow(x, -1, p); brute-force search for small fields
            want = []
            for i in range(p):
                x = (i + b) % p
                inv = pow(x, p - 2, p) if x else 0
                if x and (inv * x) % p != 1:
                    bad.append(("Fermat inverse is not an inverse", n, x))
                if x and p < 60 and [y for y in range(1, p) if (y * x) % p == 1] != [inv]:
                    bad.append(("brute-force inverse differs", n, x))
                v = (a * inv) % p
                if v < n:
                    want.append(v)
            if want != N.permutation(n, "M%d" % j):
                bad.append(("modular-inverse arrangement differs from its definition", n, j))
    # the smoothness figures of the module docstring: means over every two-sided length the check builds
    sides = [100, 120, 150, 200, 250, 280, 400]
    ns = sorted({a + b for a in sides for b in sides})
    for w in (16, 32):
        aff = [window_sd_ratio(N.noise(n, 1.0, name), w) for n in ns for name in ("A0.0", "A1.1", "A2.2", "R0", "I0")]
        inv = [window_sd_ratio(N.noise(n, 1.0, "M%d" % j), w) for n in ns for j in range(9)]
        if not sum(aff) / len(aff) < 0.75:
            bad.append(("affine-derived window sums are not sub-random on average", w, round(sum(aff) / len(aff), 3)))
        if not 0.85 < sum(inv) / len(inv) < 1.1:
            bad.append(("modular-inverse window sums are not noise-like on average", w, round(sum(inv) / len(inv), 3)))
    print("selftest.noise: %d lengths, %d arrangements checked, %d disagreement(s)" % (len(lengths()), checked, len(bad)))
    for b in bad[:20]:
        print("  DISAGREE", b)
    return 1 if bad else 0


if __name__ == "__main__":
    sys.exit(main())

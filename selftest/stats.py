"""Cross-examination of models/stats.py (DESIGN section 4 rule 5).

Every reference formula is compared with a second, differently shaped formulation (NumPy / SciPy
vectorised code, brute force by replication, or an algebraically different identity) over the same
alphabet the C19 check enumerates.  No cnvlib import.  Run:  /venv/bin/python -m selftest.stats
Exit status 0 = all formulations agree.
"""
import itertools
import math
import sys

import numpy as np
from scipy import stats as sps

from models import stats as M

VALUES = [1.0, 2.0, 0.0, 0.5, -1.0, -3.0, 100.0]
WEIGHTS = [1.0, 2.0, 0.5, 0.0, 10.0]


def close(a, b, tol=1e-9):
    return abs(a - b) <= tol * max(1.0, abs(a), abs(b))


def np_biweight_location(a, c=6.0, tol=1e-3, max_iter=5):
    """Vectorised, astropy-shaped step (mask on |u|, then weights), iterated."""
    a = np.asarray(a, float)
    m = float(np.median(a))
    for _ in range(max_iter):
        d = a - m
        mad = float(np.median(np.abs(d)))
        u = d / max(c * mad, tol)
        keep = np.abs(u) < 1
        wt = np.where(keep, (1 - u**2) ** 2, 0.0)
        new = m if wt.sum() == 0 else m + float((d * wt).sum() / wt.sum())
        if abs(new - m) <= tol:
            return new
        m = new
    return new


def np_midvariance(a, centre, n_mode, c=9.0, floor=1e-3):
    a = np.asarray(a, float)
    d = a - centre
    mad = float(np.median(np.abs(d)))
    u = d / max(c * mad, floor)
    keep = np.abs(u) < 1
    n = keep.sum() if n_mode == "inside" else len(a)
    num = (d[keep] ** 2 * (1 - u[keep] ** 2) ** 4).sum()
    den = ((1 - u[keep] ** 2) * (1 - 5 * u[keep] ** 2)).sum()
    return math.sqrt(n * num) / abs(den) if den != 0 else None


def main():
    fails = []
    n_checked = 0

    def expect(ok, what, *ctx):
        nonlocal n_checked
        n_checked += 1
        if not ok and len(fails) < 20:
            fails.append((what,) + ctx)

    vectors = [list(ms) for k in range(1, 7) for ms in itertools.combinations_with_replacement(VALUES, k)]
    vectors += [[0.5 * i for i in range(n)] for n in (10, 11, 50, 400)]
    vectors += [[0.25 * ((7 * i) % 5) for i in range(n - 1)] + [1000.0] for n in (11, 50)]
    for v in vectors:
        a = np.array(v)
        n = len(v)
        expect(close(M.median(v), float(np.median(a))), "median", v)
        for q in (0.25, 0.75, 0.1):
            expect(close(M.quantile(v, q), float(np.percentile(a, 100 * q))), "quantile", v, q)
        expect(close(M.mad(v), float(sps.median_abs_deviation(a, scale="normal")), 1e-4), "mad vs scipy (normal scale 1.482602...)", v)
        expect(close(M.mad(v, False), float(np.median(np.abs(a - np.median(a))))), "mad raw", v)
        expect(close(M.iqr(v), float(sps.iqr(a))), "iqr", v)
        if n >= 2:
            # gapper = sqrt(pi) / (n (n-1)) * sum_{i<j} |x_i - x_j|   (each gap g_k is crossed by k (n-k) pairs)
            pair_sum = sum(abs(x - y) for x, y in itertools.combinations(v, 2))
            expect(close(M.gapper(v), pair_sum * math.sqrt(math.pi) / (n * (n - 1))), "gapper", v)
            d = np.abs(a[:, None] - a[None, :])[np.triu_indices(n, 1)]
            f = 1.392 if n <= 10 else (1 + 4 / n if n < 400 else 1.0)
            expect(close(M.qn(v), float(np.percentile(d, 25)) / f), "qn", v)
        if len(set(v)) > 1:
            vals, info = M.biweight_location(v)
            ref = np_biweight_location(v)
            expect(any(close(t, ref, 1e-9) for t in vals), "biweight location", v, vals, ref)
            for centre in (M.median(v), vals[0]):
                mv = M.biweight_midvariance(v, centre)
                refs = [np_midvariance(v, centre, k) for k in ("inside", "total")]
                if mv["values"]:
                    expect(all(any(close(t, r, 1e-9) for r in refs) for t in mv["values"]), "midvariance", v, centre, mv["values"], refs)
            dens = M.kde_density(v)
            ref = sps.gaussian_kde(a).evaluate(a)
            scale = ref.max() / max(dens)
            expect(all(close(x * scale, float(y), 1e-7) for x, y in zip(dens, ref)), "kde density shape", v)
            cands = M.kde_mode_candidates(v)
            expect(any(close(float(a[ref.argmax()]), t) for t in cands), "kde mode", v, cands)
        else:
            expect(M.kde_mode_candidates(v) == [v[0]], "kde mode of constant data", v)
    # weighted: replicate each value 2*w times (weights are multiples of 0.5) and use the plain definitions
    for k in range(1, 5):
        for v in itertools.combinations_with_replacement(VALUES, k):
            for w in itertools.product(WEIGHTS, repeat=k):
                if not any(w):
                    continue
                expanded = sorted(x for x, wt in zip(v, w) for _ in range(int(round(2 * wt))))
                n = len(expanded)
                lo, hi = M.weighted_median_interval(list(v), list(w))
                expect((lo, hi) == (expanded[(n - 1) // 2], expanded[n // 2]), "weighted median interval vs replication", v, w, (lo, hi))
                cands = sorted(set(v) | {(x + y) / 2 for x in v for y in v} | {min(v) - 1, max(v) + 1})
                for c in cands:
                    expect(M.is_weighted_median(c, list(v), list(w)) == (lo <= c <= hi), "defining inequalities vs interval", v, w, c)
                expect(close(M.weighted_std(list(v), list(w)), float(np.std(expanded))), "weighted std vs replication", v, w)
    print(f"selftest.stats: {n_checked} comparisons, {len(fails)} disagreements")
    for f in fails:
        print("  DISAGREE", f)
    return 1 if fails else 0


if __name__ == "__main__":
    sys.exit(main())

"""Cross-examination of models/segstats.py (DESIGN section 4 rule 5).

Every reference formula is compared with a second, differently shaped formulation over the alphabet the
C17 check enumerates: Benjamini-Hochberg by sorting vs. by definition over all thresholds (and vs. the
rejection-set characterisation), moments by fsum vs. NumPy, the normal tail by erfc vs. scipy's survival
function, interval overlap by inequalities vs. base sets.  No cnvlib import.
Run:  /venv/bin/python -m selftest.segstats      Exit status 0 = all formulations agree.
"""
import itertools
import math
import sys

import numpy as np
from scipy import stats as sps

from models import segstats as SM

BH_VALUES = [0.0, 0.001, 0.01, 0.04, 0.5, 1.0]
LOG2 = [0.0, 0.25, 1.0, -1.0]


def close(a, b, tol=1e-12):
    return abs(a - b) <= tol * max(1.0, abs(a), abs(b))


def bh_by_definition(ps):
    """q_i = min over thresholds t >= p_i (t among the p-values) of t * m / #{p <= t}, capped at 1."""
    m = len(ps)
    out = []
    for p in ps:
        best = 1.0
        for t in ps:
            if t >= p:
                best = min(best, t * m / sum(1 for x in ps if x <= t))
        out.append(best)
    return out


def bh_rejections(ps, level):
    """The step-up procedure itself: reject the k smallest, k = max{j : p_(j) <= j * level / m}."""
    m = len(ps)
    s = sorted(ps)
    k = 0
    for j in range(1, m + 1):
        if s[j - 1] <= j * level / m:
            k = j
    if k == 0:
        return set()
    cut = s[k - 1]
    return {i for i, p in enumerate(ps) if p <= cut}


def main():
    fails = []
    n_checked = 0

    def expect(ok, what, *ctx):
        nonlocal n_checked
        n_checked += 1
        if not ok and len(fails) < 20:
            fails.append((what,) + ctx)

    # Benjamini-Hochberg
    vectors = [list(v) for k in range(1, 6) for v in itertools.product(BH_VALUES, repeat=k)]
    for n in (50, 200):
        vectors.append([(i + 1) / n for i in range(n)])
        vectors.append([(n - i) / (20.0 * n) for i in range(n)])
        vectors.append([BH_VALUES[(i * 5) % 6] * (1 + (i % 3)) / 3.0 for i in range(n)])
        vectors.append([0.5] * (n // 2) + [1e-6] + [0.5] * (n - n // 2 - 1))
    for ps in vectors:
        q1 = SM.bh_adjust(ps)
        q2 = bh_by_definition(ps)
        expect(all(close(a, b) for a, b in zip(q1, q2)), "bh sort vs definition", ps[:8], q1[:8], q2[:8])
        expect(all(a >= p - 1e-15 and a <= 1.0 for a, p in zip(q1, ps)), "bh: p <= q <= 1", ps[:8])
        order = sorted(range(len(ps)), key=lambda i: ps[i])
        expect(all(q1[order[i]] <= q1[order[i + 1]] + 1e-15 for i in range(len(ps) - 1)), "bh monotone in p", ps[:8])
        if len(ps) <= 5:
            for level in (0.005, 0.05, 0.3, 0.7):
                # away from exact ties between q and the level, {q <= level} is the step-up rejection set
                if any(close(a, level, 1e-9) for a in q1):
                    continue
                expect({i for i, a in enumerate(q1) if a <= level} == bh_rejections(ps, level), "bh rejection set", ps, level)

    # moments, percentile interval
    for k in range(1, 7):
        for xs in itertools.combinations_with_replacement(LOG2, k):
            for level in (0.0, 0.3, -0.125):
                ds = [x - level for x in xs]
                a = np.array(ds)
                expect(close(SM.mean(ds), float(a.mean())), "mean", ds)
                expect(close(SM.pop_sd(ds), float(a.std())), "pop sd", ds)
                expect(close(SM.mean_square(ds), float(a.var() + a.mean() ** 2), 1e-9), "mean square = var + mean^2", ds)
                if k >= 2:
                    expect(close(SM.sem(ds), float(a.std(ddof=1) / math.sqrt(k))), "sem", ds)
                    expect(close(SM.sem(ds), float(sps.sem(a))), "sem scipy", ds)
                t = SM.t_statistic(list(xs))
                if t is not None:
                    ref = sps.ttest_1samp(np.array(xs), 0.0)
                    expect(close(t[0], float(ref.statistic), 1e-9), "t statistic", xs)
                    expect(close(2 * float(sps.t.sf(abs(t[0]), t[1])), float(ref.pvalue), 1e-9), "t p-value", xs)
            for alpha in (0.05, 0.5, 0.9):
                lo, hi = SM.percentile_interval(list(xs), alpha)
                ref = np.percentile(np.array(xs), [100 * alpha / 2, 100 * (1 - alpha / 2)])
                expect(close(lo, float(ref[0]), 1e-9) and close(hi, float(ref[1]), 1e-9), "percentile interval", xs, alpha)

    # normal tail
    for z in [0.0, 1e-9, 0.1, -0.5, 1.0, -1.96, 2.5, 5.0, -8.0, 20.0, 40.0, float("inf"), float("-inf")]:
        expect(close(SM.two_sided_normal_p(z), 2.0 * float(sps.norm.sf(abs(z))), 1e-12), "normal tail", z)

    # overlap / containment: base sets
    grid = [(s, e) for s in range(0, 7) for e in range(s + 1, 8)]
    for bs, be in grid:
        for ss, se in grid:
            b, s = ("c", bs, be), ("c", ss, se)
            bases_b, bases_s = set(range(bs, be)), set(range(ss, se))
            expect((SM.overlapping([b], s) == [0]) == bool(bases_b & bases_s), "overlap", b, s)
            expect((SM.contained([b], s) == [0]) == (bases_b <= bases_s), "contained", b, s)
    expect(SM.overlapping([("a", 0, 5)], ("b", 0, 5)) == [], "overlap other chromosome")

    # bintest model against a vectorised formulation
    bins = [("c", 0, 10, "T", 0.5, 0.5), ("c", 10, 20, "Antitarget", -1.0, 0.2), ("c", 20, 30, "T", 0.25, 1.0), ("d", 0, 10, "Background", 0.0, 0.5)]
    segs = [("c", 0, 20, 0.125), ("c", 20, 30, 0.0), ("d", 0, 10, 0.25)]
    for target_only in (False, True):
        m = SM.bintest_model(bins, segs, target_only)
        keep = [i for i, b in enumerate(bins) if not (target_only and b[3] in ("Antitarget", "Background"))]
        expect(m["tested"] == keep, "bintest tested bins", target_only)
        lvl = {0: 0.125, 1: 0.125, 2: 0.0, 3: 0.25}
        with np.errstate(divide="ignore"):
            z = np.array([(bins[i][4] - lvl[i]) / np.sqrt(1 - bins[i][5]) if bins[i][5] < 1 else np.inf for i in keep])
        p = 2 * sps.norm.cdf(-np.abs(z))
        expect(all(close(a, float(b2), 1e-12) for a, b2 in zip(m["p"], p)), "bintest raw p", target_only)
        expect(all(close(a, b2) for a, b2 in zip(m["q"], bh_by_definition(list(map(float, p))))), "bintest q", target_only)

    print(f"selftest.segstats: {n_checked} comparisons, {len(fails)} disagreements")
    for f in fails:
        print("  DISAGREE", f)
    return 1 if fails else 0


if __name__ == "__main__":
    sys.exit(main())

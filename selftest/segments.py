"""Cross-examination of models/segments.py (no cnvlib involved).

1. The constructive formulation (`ideal_none`: the segmentation the statement prescribes for method `none`) is
   accepted by the clause-wise formulation (`check`) on every word over {o,l,z,w} of length <= 4 in three chromosome
   layouts x 4 filter configurations, and on tables with a centromere-sized gap.
2. The clauses are not vacuous: every single-field corruption of the ideal answer (start moved to the first survivor,
   end moved to the last survivor, probes counting input bins, weight over survivors only, an ignored name in the gene
   list, unweighted log2, two arms swapped, a segment dropped / duplicated / moved to another chromosome, zero length)
   is rejected, with the clause id one expects.
3. The arm split agrees with a second, slice-shaped derivation of the documented rule on every (n, gap position).
4. The survivor mask agrees with a second derivation (filters applied one after the other to a shrinking list).

Run:  /venv/bin/python -m selftest.segments     (from /verif; exits 0 and prints the counts)
"""
import copy
import itertools
import os
import sys

sys.path.insert(0, os.path.dirname(os.path.dirname(os.path.abspath(__file__))))
from models import segments as M  # noqa: E402


def word_rows(chrom, ci, word):
    rows = []
    for i, k in enumerate(word):
        start = 10000 + 2000 * i
        log2, depth, weight = (0.0, 0.4, -0.3)[(i + ci) % 3], 40.0 + 7 * i + 3 * ci, (0.9, 0.6, 0.8)[(i + 2 * ci) % 3]
        if k == "l":
            log2, depth = -25.0, 0.0
        if k == "z":
            weight = 0.0
        if k == "w":
            weight = 0.3
        gene = ("Antitarget", f"c{ci}A", "-", f"c{ci}A", f"c{ci}B", "CGH")[i % 6]
        rows.append((chrom, start, start + 1000 + 100 * (i % 3), gene, log2, depth, weight))
    return rows


def big_rows(chrom, n, gap_at):
    rows, pos = [], 100000
    for i in range(n):
        if i == gap_at:
            pos += 1000000
        w = 0.0 if i in (0, n - 1) or (gap_at and i in (gap_at - 1, gap_at)) else 0.5 + 0.01 * (i % 7)
        rows.append((chrom, pos, pos + 1000, f"G{i // 9}", 0.01 * (i % 5), 100.0 + i, w))
        pos += 5000
    return rows


def arm_cut_slices(starts, ends):
    n = len(starts)
    margin = max(50, int(round(0.1 * n)))
    if n <= 2 * margin + 1:
        return 0
    gaps = [s - e for s, e in zip(starts[margin + 1 : n - margin], ends[margin : n - margin - 1])]
    k = gaps.index(max(gaps))
    return k + margin + 1 if gaps[k] >= 100000 else 0


def survivors_sequential(bins, units, skip_low, min_weight):
    alive = set()
    for _c, idx in units:
        cur = list(idx)
        if skip_low:
            cur = [i for i in cur if not (bins[i][M.LOG2] < -15 or bins[i][M.DEPTH] == 0)]
        cur = [i for i in cur if (bins[i][M.WEIGHT] >= min_weight if min_weight else bins[i][M.WEIGHT] != 0)]
        alive.update(cur)
    return [i in alive for i in range(len(bins))]


def corruptions(bins, keep, segs):
    """(name, expected clause ids, corrupted copy) for every corruption that applies to this table."""
    out = []
    groups = dict(M.chrom_groups(bins))
    for k, s in enumerate(segs):
        arm = [i for c, idx in M.arm_units(bins) if c == s["chromosome"] for i in idx if s["start"] <= bins[i][M.START] and bins[i][M.END] <= s["end"]]
        surv = [i for i in arm if keep[i]]

        def mod(**kw):
            c = copy.deepcopy(segs)
            c[k].update(kw)
            return c

        if not keep[arm[0]]:
            out.append(("start-at-first-survivor", {"arm-endpoint/first-segment-start"}, mod(start=bins[surv[0]][M.START])))
        if not keep[arm[-1]]:
            out.append(("end-at-last-survivor", {"arm-endpoint/last-segment-end"}, mod(end=bins[surv[-1]][M.END])))
        if len(surv) != len(arm):
            out.append(("probes-count-input-bins", {"probes", "probes-sum"}, mod(probes=len(arm))))
            w_s = sum(bins[i][M.WEIGHT] for i in surv)
            if abs(w_s - s["weight"]) > 1e-6:
                out.append(("weight-over-survivors", {"weight"}, mod(weight=w_s)))
        raw = ",".join(dict.fromkeys(bins[i][M.GENE] for i in arm if bins[i][M.GENE] != "-")) or "-"
        if raw != s["gene"]:
            out.append(("gene-keeps-ignored-names", {"gene"}, mod(gene=raw)))
        plain = sum(bins[i][M.LOG2] for i in surv) / len(surv)
        if abs(plain - s["log2"]) > 1e-6:
            out.append(("log2-unweighted", {"log2"}, mod(log2=plain)))
        out.append(("probes-plus-one", {"probes", "probes-sum"}, mod(probes=s["probes"] + 1)))
        out.append(("zero-length", {"positive-length"}, mod(end=s["start"])))
        out.append(("beyond-span", {"within-span"}, mod(end=bins[groups[s["chromosome"]][-1]][M.END] + 1)))
        out.append(("dropped", {"survivor-in-one-segment", "chromosome-has-segment", "probes-sum"}, segs[:k] + segs[k + 1 :]))
        out.append(("duplicated", {"survivor-in-one-segment", "disjoint", "probes-sum"}, segs[: k + 1] + [dict(s)] + segs[k + 1 :]))
        other = [c for c in groups if c != s["chromosome"]]
        if other:
            out.append(("moved-to-other-chromosome", {"survivor-in-one-segment", "within-span", "probes", "disjoint", "chromosome-has-segment"}, mod(chromosome=other[0])))
    for k in range(len(segs) - 1):
        if segs[k]["chromosome"] == segs[k + 1]["chromosome"]:
            c = copy.deepcopy(segs)
            c[k], c[k + 1] = c[k + 1], c[k]
            out.append(("arms-swapped", {"sorted"}, c))
    return out


def main():
    n_tables = n_accept = n_reject = 0
    kinds = {}
    tables = []
    for n in range(1, 5):
        for w in itertools.product("olzw", repeat=n):
            word = "".join(w)
            tables.append(word_rows("chr1", 0, word) + word_rows("chr2", 1, "oo"))
            tables.append(word_rows("chr1", 0, "ll") + word_rows("chr2", 1, word))
            tables.append(word_rows("chr1", 0, word))
    tables.append(big_rows("chr1", 120, 60) + big_rows("chr2", 60, None))
    tables.append(big_rows("chr1", 400, 170))
    for bins in tables:
        units = M.arm_units(bins)
        for skip_low, min_weight in itertools.product((False, True), (0, 0.5)):
            keep, _ = M.survivor_mask(bins, units, skip_low, min_weight, 10, lambda x, f: [False] * len(x))
            assert keep == survivors_sequential(bins, units, skip_low, min_weight), ("survivor formulations differ", bins)
            segs = M.ideal_none(bins, keep)
            n_tables += 1
            probs = M.check(bins, keep, segs, "none")
            assert not probs, ("the clauses reject the ideal answer", bins, keep, probs[:2])
            n_accept += 1
            for name, want, bad in corruptions(bins, keep, segs):
                got = {p["cid"] for p in M.check(bins, keep, bad, "none")}
                assert got & want, ("corruption not rejected as expected", name, want, got, bins, keep)
                kinds[name] = kinds.get(name, 0) + 1
                n_reject += 1
    # arm split, two derivations
    n_arm = 0
    for n in list(range(1, 140)) + [200, 399, 400]:
        for gap_at in [None] + list(range(1, n)):
            for gap in (99999, 100000, 1000000):
                rows = []
                pos = 0
                for i in range(n):
                    if i == gap_at:
                        pos += gap
                    rows.append((pos, pos + 10))
                    pos += 10 + (i % 3)
                st, en = [r[0] for r in rows], [r[1] for r in rows]
                assert M.arm_cut(st, en) == arm_cut_slices(st, en), (n, gap_at, gap)
                n_arm += 1
    assert set(kinds) >= {"start-at-first-survivor", "end-at-last-survivor", "probes-count-input-bins", "weight-over-survivors", "gene-keeps-ignored-names", "log2-unweighted", "arms-swapped", "dropped", "duplicated", "moved-to-other-chromosome"}, kinds
    print(f"selftest.segments: {n_tables} (table, configuration) pairs; ideal answer accepted {n_accept}; {n_reject} corruptions rejected {kinds}; arm split agrees on {n_arm} layouts")


if __name__ == "__main__":
    main()

"""Cross-examination of models/exports.py.

    /venv/bin/python -m selftest.exports        (exit 0 = agreement on the whole alphabet)

The model is a *checker* (it judges listings); the second formulation here is a *generator*: a small pure-Python
exporter written from the statement (tables for ploidy 2 and 4 written out by hand, BED / VCF / SEG / per-bin table
produced row by row).  On every (table, configuration) of the alphabet

* the checker must accept the generator's output, and
* must reject each of a dozen deliberate corruptions of it (row dropped, neutral row added, cn off by one, start
  shifted, POS not clamped, SVLEN sign, DEL/DUP flipped, CN missing, duplicated record, SEG start unshifted, a
  sample's column overwritten, a label pointing at another bin).

No cnvlib import.
"""
import itertools
import math
import sys

from models import calling as K
from models import exports as M

# expected copies for even ploidy in units of ploidy/2, written out by hand: (class, female sample) -> x
HAND_X = {
    ("auto", 0): 2, ("auto", 1): 2, ("x", 0): 1, ("x", 1): 2, ("y", 0): 1, ("y", 1): 0,
    ("parx", 0): 2, ("parx", 1): 2, ("pary", 0): 0, ("pary", 1): 0,
}  # fmt: skip
HAND_R = {("auto", 0): 2, ("auto", 1): 2, ("x", 0): 2, ("x", 1): 1, ("y", 0): 1, ("y", 1): 1}  # (class, male reference) -> r


def gen_cn(seg, cls, ploidy, male_ref):
    if "cn" in seg:
        return seg["cn"]
    kind = {"parx": "x", "pary": "y"}.get(cls, cls)
    r = HAND_R[(kind, int(male_ref))] * (ploidy // 2)
    v = r * 2.0 ** seg["log2"]
    return int(math.floor(v + 0.5))


def gen_bed(segs, ploidy, male_ref, female, genome, show):
    out = []
    for s in segs:
        cls = K.bin_class(s["chrom"], s["start"], s["end"], genome)
        cn = gen_cn(s, cls, ploidy, male_ref)
        x = HAND_X[(cls, int(female))] * (ploidy // 2)
        if show == "all" or (show == "ploidy" and cn != ploidy) or (show == "variant" and cn != x):
            out.append((s["chrom"], s["start"], s["end"], cn))
    return out


def gen_vcf(segs, ploidy, male_ref, female, genome):
    lines = ["##fileformat=VCFv4.2", "#CHROM\tPOS\tID\tREF\tALT\tQUAL\tFILTER\tINFO\tFORMAT\tS"]
    for s in segs:
        cls = K.bin_class(s["chrom"], s["start"], s["end"], genome)
        cn = gen_cn(s, cls, ploidy, male_ref)
        x = HAND_X[(cls, int(female))] * (ploidy // 2)
        if cn == x:
            continue
        kind = "DEL" if cn < x else "DUP"
        ln = s["end"] - s["start"]
        info = f"IMPRECISE;SVTYPE={kind};END={s['end']};SVLEN={-ln if kind == 'DEL' else ln};PROBES={s['probes']}"
        fmt, smp = ("GT:GQ", f"0/1:{s['probes']}") if kind == "DEL" else ("GT:GQ:CN:CNQ", f"0/1:0:{cn}:{s['probes']}")
        lines.append("\t".join([s["chrom"], str(s["start"] or 1), ".", "N", f"<{kind}>", ".", ".", info, fmt, smp]))
    return "\n".join(lines) + "\n"


def tables():
    """Small alphabet: every 1- and 2-row table over 5 classes x 4 values, with and without cn, both namings."""
    (p1s, p1e), _ = K.PAR["grch38"]["x"]
    (q1s, q1e), _ = K.PAR["grch38"]["y"]
    sites = {"auto": ("1", 0), "x": ("X", 0), "parx": ("X", (p1s + p1e) // 2), "y": ("Y", 0), "pary": ("Y", (q1s + q1e) // 2)}
    for naming in ("", "chr"):
        for has_cn in (True, False):
            for k in (1, 2):
                for classes in itertools.combinations_with_replacement(list(sites), k):
                    for vals in itertools.product((0, 1, 2, 3), repeat=k):
                        segs = []
                        for j, (cls, v) in enumerate(zip(classes, vals)):
                            ch, off = sites[cls]
                            s = {"chrom": naming + ch, "start": off + j * 1000, "end": off + j * 1000 + 900, "probes": 11 + j, "log2": 0.2}
                            if has_cn:
                                s["cn"] = v
                            else:
                                s["log2"] = [-10.0, -1.2, 0.1, 0.55][v]  # off the ties for every r in {1,2,4}
                            segs.append(s)
                        if len({(s["chrom"], s["start"]) for s in segs}) == len(segs):
                            yield segs


def main():
    n = rejected = 0
    for segs in tables():
        for ploidy, male_ref, female, genome in itertools.product((2, 4), (False, True), (False, True), (None, "grch38")):
            cfg = M.Cfg(ploidy, male_ref, female, genome)
            # r inside a PAR is open in the model without a cn column (the generator uses the pure r, which the model admits):
            # corruptions are asserted only where the model decides every segment
            decided = all(c is not None and len(c) == 1 and e is not None for _, _, c, e in M.annotate(segs, cfg))
            for show in M.SHOWS:
                rows = gen_bed(segs, ploidy, male_ref, female, genome, show)
                assert M.check_bed(rows, segs, cfg, show) == [], (segs, vars(cfg), show, rows, M.check_bed(rows, segs, cfg, show))
                n += 1
                # corruptions
                full = gen_bed(segs, ploidy, male_ref, female, genome, "all")
                if rows and decided:
                    assert M.check_bed(rows[1:], segs, cfg, show), ("dropped row accepted", segs, show)
                    bad = [(rows[0][0], rows[0][1] + 1, rows[0][2], rows[0][3])] + rows[1:]
                    assert M.check_bed(bad, segs, cfg, show), "shifted start accepted"
                    bad = [(rows[0][0], rows[0][1], rows[0][2], float(rows[0][3]) + 0.5)] + rows[1:]
                    assert M.check_bed(bad, segs, cfg, show), "non-integer cn accepted"
                    if all("cn" in s for s in segs):
                        bad = [(rows[0][0], rows[0][1], rows[0][2], rows[0][3] + 7)] + rows[1:]
                        assert M.check_bed(bad, segs, cfg, show), "wrong cn accepted"
                    rejected += 3
                extra = [r for r in full if r not in rows]
                if extra and decided:
                    assert M.check_bed(rows + extra[:1], segs, cfg, show), ("neutral row accepted", segs, vars(cfg), show)
                    rejected += 1
            text = gen_vcf(segs, ploidy, male_ref, female, genome)
            names, recs = M.parse_vcf(text)
            assert names == ["S"]
            assert M.check_vcf(recs, segs, cfg) == [], (segs, vars(cfg), text, M.check_vcf(recs, segs, cfg))
            n += 1
            body = text.split("\n")[2:-1]
            if not decided:
                continue
            if body:
                head = "\n".join(text.split("\n")[:2]) + "\n"

                def judge(lines):
                    return M.check_vcf(M.parse_vcf(head + "\n".join(lines) + "\n")[1], segs, cfg)

                assert judge(body[1:]), "missing record accepted"
                assert judge(body + body[:1]), "duplicate record accepted"
                f = body[0].split("\t")
                g = list(f)
                g[1] = str(int(f[1]) + 1)
                assert judge(["\t".join(g)] + body[1:]), "POS+1 accepted"
                g = list(f)
                g[7] = f[7].replace("SVLEN=-", "SVLEN=+") if "SVLEN=-" in f[7] else f[7].replace("SVLEN=", "SVLEN=-")
                assert judge(["\t".join(g)] + body[1:]), "SVLEN sign accepted"
                g = list(f)
                if "DEL" in f[4]:
                    g[4], g[7], g[8], g[9] = "<DUP>", f[7].replace("SVTYPE=DEL", "SVTYPE=DUP").replace("SVLEN=-", "SVLEN="), "GT:GQ:CN:CNQ", "0/1:0:0:5"
                    if all("cn" in s for s in segs):
                        assert judge(["\t".join(g)] + body[1:]), "DEL reported as DUP accepted"
                else:
                    g[4], g[7] = "<DEL>", f[7].replace("SVTYPE=DUP", "SVTYPE=DEL").replace("SVLEN=", "SVLEN=-")
                    assert judge(["\t".join(g)] + body[1:]), "DUP reported as DEL accepted"
                    g = list(f)
                    g[8], g[9] = "GT:GQ", "0/1:5"
                    assert judge(["\t".join(g)] + body[1:]), "gain without CN accepted"
                rejected += 6
            else:
                # every segment neutral: a record for any of them must be rejected
                s = segs[0]
                fake = "\t".join([s["chrom"], str(s["start"] or 1), ".", "N", "<DEL>", ".", ".", f"SVTYPE=DEL;END={s['end']};SVLEN={s['start'] - s['end']}", "GT:GQ", "0/1:5"])
                recs = M.parse_vcf(text + fake + "\n")[1]
                assert M.check_vcf(recs, segs, cfg), ("neutral record accepted", segs, vars(cfg))
                rejected += 1
    # start 0 -> POS 1
    seg0 = [{"chrom": "1", "start": 0, "end": 50, "probes": 3, "log2": 0.0, "cn": 3}]
    cfg = M.Cfg(2, False, True, None)
    ok = gen_vcf(seg0, 2, False, True, None)
    assert M.check_vcf(M.parse_vcf(ok)[1], seg0, cfg) == []
    assert M.check_vcf(M.parse_vcf(ok.replace("1\t1\t.", "1\t0\t."))[1], seg0, cfg), "POS 0 accepted"
    # odd ploidy / PAR without cn / straddle stay open, the rest does not
    assert M.expected_copies("x", 3, False) is None and M.expected_copies("y", 3, True) == 0 and M.expected_copies("x", 3, True) == 3
    assert M.reference_candidates("parx", 2, True) == {1, 2} and M.reference_candidates("pary", 2, False) == {0, 1}
    assert M.reference_candidates("x", 3, True) is None and M.reference_candidates("x-straddle", 2, False) is None
    for ploidy in (2, 4, 6):
        for (cls, fem), x in HAND_X.items():
            assert M.expected_copies(cls, ploidy, bool(fem)) == x * ploidy // 2, (cls, fem, ploidy)
    # SEG
    samples = [("S1", [{"chrom": "1", "start": 0, "end": 10, "log2": 0.5, "probes": 3}, {"chrom": "2", "start": 5, "end": 9, "log2": -1.0, "probes": 4}]),
               ("S2", [{"chrom": "2", "start": 0, "end": 7, "log2": 0.25, "probes": 1}])]  # fmt: skip
    good = [("S1", "1", 1, 10, 3, 0.5), ("S1", "2", 6, 9, 4, -1.0), ("S2", "2", 1, 7, 1, 0.25)]
    assert M.check_seg(good, samples, False, 1e-9) == [] and M.check_seg(list(reversed(good)), samples, False, 1e-9) == []
    assert M.check_seg([("S1", "1", 0, 10, 3, 0.5)] + good[1:], samples, False, 1e-9), "unshifted start accepted"
    assert M.check_seg([("S2", "1", 1, 10, 3, 0.5)] + good[1:], samples, False, 1e-9), "wrong sample id accepted"
    assert M.check_seg(good[:2], samples, False, 1e-9), "missing segment accepted"
    assert M.check_seg([("S1", "1", 1, 10, 3, 0.51)] + good[1:], samples, False, 1e-9), "wrong mean accepted"
    assert M.check_seg([("S1", "1", 1, 10, 4, 0.5)] + good[1:], samples, False, 1e-9), "wrong probes accepted"
    assert M.check_seg([("S1", "3", 1, 10, 3, 0.5)] + good[1:], samples, False, 1e-9), "wrong chromosome accepted"
    renum = [("S1", 7, 1, 10, 3, 0.5), ("S1", 8, 6, 9, 4, -1.0), ("S2", 8, 1, 7, 1, 0.25)]
    assert M.check_seg(renum, samples, True, 1e-9) == []
    assert M.check_seg([("S1", 8, 1, 10, 3, 0.5)] + renum[1:], samples, True, 1e-9), "renumbering collision accepted"
    assert M.check_seg(renum[:2] + [("S2", 9, 1, 7, 1, 0.25)], samples, True, 1e-9), "one chromosome with two ids accepted"
    rejected += 8
    # per-bin tables
    bins = [{"chrom": "1", "start": 0, "end": 10, "log2": 0.1}, {"chrom": "1", "start": 10, "end": 20, "log2": 0.2}]
    bins2 = [dict(b, log2=b["log2"] + 1) for b in bins]
    smp = [("A", bins), ("B", bins2)]
    header = ["Name", "A", "B"]
    rows = [["1:0-10:g", 0.1, 1.1], ["1:11-20:g", 0.2, 1.2]]
    assert M.check_bin_table(header, rows, "Name", smp, 1e-9) == []
    assert M.check_bin_table(header, rows[::-1], "Name", smp, 1e-9) == []
    assert M.check_bin_table(header, rows[:1], "Name", smp, 1e-9), "missing bin accepted"
    assert M.check_bin_table(header, [rows[0], ["1:0-10:g", 0.2, 1.2]], "Name", smp, 1e-9), "label of another bin accepted"
    assert M.check_bin_table(header, [["1:0-10:g", 1.1, 0.1], rows[1]], "Name", smp, 1e-9), "swapped columns accepted"
    assert M.check_bin_table(["Name", "A"], [r[:2] for r in rows], "Name", smp, 1e-9), "lost sample accepted"
    assert M.check_bin_table(["Name", "A", "A"], rows, "Name", [("A", bins), ("A", bins2)], 1e-9) == []
    assert M.check_bin_table(["Name", "A"], [r[:2] for r in rows], "Name", [("A", bins), ("A", bins2)], 1e-9), "silently lost duplicate accepted"
    assert M.bins_equal(bins, bins2) and not M.bins_equal(bins, bins[:1]) and not M.bins_equal(bins, [bins[0], dict(bins[1], end=21)])
    rejected += 6
    print(f"selftest.exports: {n} generated listings accepted, {rejected} corruptions rejected")
    return 0


if __name__ == "__main__":
    sys.exit(main())

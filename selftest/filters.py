"""Cross-examination of models/filters.py (no cnvlib involved).

1. The constructive formulation (`apply`) and the clause-wise formulation (`clauses`) must agree on every
   table of a small alphabet, for every filter and every admissible level reading.
2. Neither formulation is vacuous: each of a set of wrong outputs derived from the model's own output
   (two neighbours merged, a merged row split again, an end moved, a row dropped, probes / weight / log2
   changed, a row moved to another chromosome) is rejected by `compare`, and each structural one also by
   `clauses`.
3. A third, differently shaped derivation of the runs (boundary set: a cut between rows i, i+1 iff the
   chromosome or the level differs) gives the same segments as the run scanner.

Run:  /venv/bin/python -m selftest.filters     (from /verif; exits 0 and prints the counts)
"""
import itertools
import os
import sys

sys.path.insert(0, os.path.dirname(os.path.dirname(os.path.abspath(__file__))))
from models import filters as M  # noqa: E402

CHROMS = ["chr1", "chr2", "chr3"]
W = [2.0, 0.5, 0.0, 1.0, 0.5]
P = [5, 1, 3, 1, 2]
L = [-0.3, 0.4, 1.4, -1.2, 0.0]

SYMS = {
    "cn": [{"cn": 2}, {"cn": 3}, {"cn": 0}, {"cn": 5}],
    "cn-allelic": [
        {"cn": 2, "cn1": 1, "cn2": 1},
        {"cn": 2, "cn1": None, "cn2": None},
        {"cn": 2, "cn1": 2, "cn2": 0},
        {"cn": 3, "cn1": None, "cn2": None},
    ],
    "ampdel": [{"cn": 2}, {"cn": 5}, {"cn": 0}, {"cn": 7}],
    "ampdel-allelic": [{"cn": 2, "cn1": 1, "cn2": 1}, {"cn": 5, "cn1": 3, "cn2": 2}, {"cn": 5, "cn1": None, "cn2": None}, {"cn": 7, "cn1": 4, "cn2": 3}],
    "ci": [{"ci_lo": -0.5, "ci_hi": 0.5}, {"ci_lo": 0.1, "ci_hi": 0.9}, {"ci_lo": 1.0, "ci_hi": 2.0}, {"ci_lo": 0.0, "ci_hi": 0.8}, {"ci_lo": -0.9, "ci_hi": -0.1}],
    "sem": [{"log2": 0.4, "sem": 0.5}, {"log2": 0.4, "sem": 0.1}, {"log2": 1.4, "sem": 0.5}, {"log2": 0.0, "sem": 0.0}, {"log2": -0.3, "sem": 0.1}],
}
FILT = {"cn": "cn", "cn-allelic": "cn", "ampdel": "ampdel", "ampdel-allelic": "ampdel", "ci": "ci", "sem": "sem"}


def layouts(n, maxparts=3):
    for k in range(1, min(n, maxparts) + 1):
        for cuts in itertools.combinations(range(1, n), k - 1):
            e = (0,) + cuts + (n,)
            yield [e[i + 1] - e[i] for i in range(k)]


def table(layout, syms):
    rows = []
    k = 0
    for ci, n in enumerate(layout):
        pos = 0
        for _ in range(n):
            r = {"chromosome": CHROMS[ci], "start": pos, "end": pos + 100, "log2": L[k % 5], "probes": P[k % 5], "weight": W[k % 5]}
            r.update(syms[k])
            rows.append(r)
            pos += 100 + (50 if k % 2 else 0)
            k += 1
    return rows


def by_boundaries(filt, rows, levels):
    """Third derivation: cut set -> segments (chromosome, start, end, probes)."""
    n = len(rows)
    cuts = [0] + [i + 1 for i in range(n - 1) if rows[i]["chromosome"] != rows[i + 1]["chromosome"] or levels[i] != levels[i + 1]] + [n]
    out = []
    for a, b in zip(cuts, cuts[1:]):
        if b > a and M.keeps(filt, levels[a]):
            out.append((rows[a]["chromosome"], rows[a]["start"], rows[b - 1]["end"], sum(r["probes"] for r in rows[a:b])))
    return out


def wrong_outputs(filt, rows, levels, good):
    """(name, output, structural?) variants that break the statement."""
    out = []
    for k in range(len(good) - 1):
        a, b = good[k], good[k + 1]
        if a["chromosome"] == b["chromosome"] and a["members"][1] + 1 == b["members"][0]:
            m = dict(a, end=b["end"], probes=a["probes"] + b["probes"], weight=a["weight"] + b["weight"])
            out.append(("merged-neighbours", good[:k] + [m] + good[k + 2 :], True))
            break
    for k, g in enumerate(good):
        i, j = g["members"]
        if j > i:
            first = M.squash(rows, i, i, levels[i])
            rest = M.squash(rows, i + 1, j, levels[i])
            out.append(("split-run", good[:k] + [first, rest] + good[k + 1 :], True))
            out.append(("end-of-first-row", good[:k] + [dict(g, end=rows[i]["end"])] + good[k + 1 :], True))
            break
    if good:
        out.append(("dropped-row", good[1:], True))
        out.append(("probes+1", [dict(good[0], probes=good[0]["probes"] + 1)] + good[1:], True))
        out.append(("weight+1", [dict(good[0], weight=good[0]["weight"] + 1)] + good[1:], True))
        if good[0]["log2"] is not None:
            out.append(("log2+0.01", [dict(good[0], log2=good[0]["log2"] + 0.01)] + good[1:], False))
        out.append(("other-chromosome", [dict(good[0], chromosome="chrZ")] + good[1:], True))
    return out


def main():
    n_tables = n_readings = n_wrong = 0
    for kind, syms in SYMS.items():
        filt = FILT[kind]
        for n in range(0, 5):
            for layout in layouts(n) if n else [[]]:
                for word in itertools.product(syms, repeat=n):
                    rows = table(layout, word)
                    n_tables += 1
                    for lv in M.level_alternatives(filt, rows) if rows else [[]]:
                        n_readings += 1
                        good = M.apply(filt, rows, lv)
                        own = M.clauses(filt, rows, lv, good)
                        assert not own, (kind, rows, lv, own)
                        seen = [dict(g, **dict(zip(("cn", "cn1", "cn2"), g["level"]))) for g in good]  # cn columns matter for the cn filter only
                        assert not M.compare(filt, rows, lv, seen), (kind, rows, lv)
                        assert by_boundaries(filt, rows, lv) == [(g["chromosome"], g["start"], g["end"], g["probes"]) for g in good], (kind, rows, lv)
                        # conservation of the model's own output, stated directly
                        kept = [r for r, x in zip(rows, lv) if M.keeps(filt, x)]
                        assert sum(g["probes"] for g in good) == sum(r["probes"] for r in kept)
                        for name, bad, structural in wrong_outputs(filt, rows, lv, good):
                            n_wrong += 1
                            c1 = M.compare(filt, rows, lv, bad)
                            assert c1, ("compare accepted", name, kind, rows, lv, bad)
                            if structural:
                                c2 = M.clauses(filt, rows, lv, bad)
                                assert c2, ("clauses accepted", name, kind, rows, lv, bad)
    # missing equals only missing; touching zero is open; strictly above is not
    a = [{"chromosome": "chr1", "start": 0, "end": 1, "log2": 0.0, "probes": 1, "weight": 1.0, "cn": 2, "cn1": c, "cn2": None if c is None else 2 - c} for c in (1, None, None, 2)]
    lv = M.level_alternatives("cn", a)[0]
    assert M.runs(a, lv) == [(0, 0), (1, 2), (3, 3)]
    assert M.interval_levels(0.0, 1.0) == (M.NEUTRAL, M.ABOVE) and M.interval_levels(0.1, 1.0) == (M.ABOVE,)
    assert M.interval_levels(-1.0, 0.0) == (M.NEUTRAL, M.BELOW) and M.interval_levels(-1.0, 1.0) == (M.NEUTRAL,)
    assert set(M.interval_levels(0.0, 0.0)) == {M.NEUTRAL, M.ABOVE, M.BELOW}
    print(f"selftest filters: {n_tables} tables, {n_readings} level readings, {n_wrong} wrong outputs rejected - ok")


if __name__ == "__main__":
    main()

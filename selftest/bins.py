"""Model-vs-model cross-examination for models/bins.py (C12).

Second, differently shaped formulation: explicit sets of base positions.

* space: S = {p : p lies in some access region shrunk by the margin} - {p : p within the margin of a target},
  built position by position, against the interval sweeps of models.bins.space;
* antitarget clauses: every clause re-evaluated on position sets (a bin is a set of positions; "inside",
  "near a target", "overlap", "covered" are set relations), against models.bins.antitarget_problems, on correct
  bin lists (built by cutting the stretches) and on every single-step perturbation of them (a bin moved,
  grown, shrunk, dropped, duplicated, renamed; a bin added where none belongs);
* split clauses: cover by position sets, counts by Python's round() away from ties, against split_problems.

Run:  cd /verif && /venv/bin/python -m selftest.bins        (exit 0 = all formulations agree)
"""
import itertools
import sys

from models import bins as B
from models import intervals as M

O, U = 200000, 400
CANONICAL = {"chr1", "chr2", "chr3"}


def pos(u):
    return O + U * u


def rows(units, chrom="chr1"):
    return [(chrom, pos(s), pos(e)) for s, e in units]


# ---- formulation 2 ---------------------------------------------------------------------------------
def space_bases(targets, access, canonical):
    targeted = {t[0] for t in targets}
    if access is None:
        access = [(c, B.TELOMERE, max(t[2] for t in targets if t[0] == c)) for c in sorted(targeted)]
    shrunk, S = {}, {}
    for c in sorted({a[0] for a in access}):
        if not (c in targeted or c in canonical):
            continue
        pts = set()
        for a in access:
            if a[0] == c:
                pts.update(range(a[1] + B.MARGIN, a[2] - B.MARGIN))
        shrunk[c] = set(pts)
        for t in targets:
            if t[0] == c:
                pts.difference_update(range(max(0, t[1] - B.MARGIN), t[2] + B.MARGIN))
        S[c] = pts
    return shrunk, S


def problems_bases(bins, targets, access, avg, lo, hi, canonical):
    keys = set()
    shrunk, S = space_bases(targets, access, canonical)
    if any(len(b) < 4 or b[3] != B.ANTITARGET for b in bins):
        keys.add("name")
    if any(b[2] <= b[1] for b in bins):
        return keys | {"empty-bin"}
    seen = {}
    for b in bins:
        pts = set(range(b[1], b[2]))
        if b[0] not in shrunk:
            keys.add("contig")
        if not pts <= shrunk.get(b[0], set()):
            keys.add("outside-shrunk-access")
        for t in targets:
            if t[0] == b[0]:
                # distance between the nearest bases of bin and target, in bases between them
                near = set(range(t[1] - B.MARGIN, t[2] + B.MARGIN))
                if pts & near:
                    keys.add("near-target")
        if pts & seen.get(b[0], set()):
            keys.add("overlap")
        seen.setdefault(b[0], set()).update(pts)
        if len(pts) < lo:
            keys.add("below-min")
        if len(pts) > 1.5 * avg:
            keys.add("above-1.5avg")
    for c in S:
        for s, e in M.runs(S[c]):
            if e - s >= hi and not set(range(s, e)) <= seen.get(c, set()):
                keys.add("stretch-uncovered")
    return keys


def cut(stretch, avg):
    c, s, e = stretch
    n = max(B.bin_counts(e - s, avg))
    edges = [s + (e - s) * i // n for i in range(n + 1)]
    return [(c, a, b, B.ANTITARGET) for a, b in zip(edges[:-1], edges[1:])]


def perturbations(bins):
    yield "identity", list(bins)
    for i, b in enumerate(bins):
        rest = bins[:i] + bins[i + 1 :]
        yield "drop", rest
        yield "dup", bins + [b]
        yield "rename", rest + [b[:3] + ("Background",)]
        for ds, de in ((-1, 0), (1, 0), (0, -1), (0, 1), (-1, -1), (1, 1), (-300, 0), (0, 300), (0, 2000)):
            if b[2] + de > b[1] + ds:
                yield "move%+d%+d" % (ds, de), rest + [(b[0], b[1] + ds, b[2] + de, b[3])]
    yield "extra-far", bins + [("chr1", pos(40), pos(42), B.ANTITARGET)]
    yield "extra-other-contig", bins + [("chr6_x_alt", pos(2), pos(4), B.ANTITARGET)]


def main():
    n = bad = 0
    t_tables = [x for x in M_multisets([(s, e) for s in range(0, 7) for e in range(s + 1, 7)], 2) if x]
    t_tables += [((0, 8), (1, 6), (2, 4)), ((0, 1), (3, 4), (7, 8)), ((0, 3), (2, 5), (4, 8))]
    a_tables = [None, ((-2, 12),), ((1, 12),), ((-2, 5),), ((-2, 4), (4, 12)), ((-2, 6), (5, 12)), ((-2, 8), (3, 12)), ((-2, 12), (2, 6)), ((0, 3), (7, 12)), ((0, 2),)]
    extras = [[], [("chr3", pos(0), pos(6)), ("chr6_x_alt", pos(0), pos(6))]]
    # 1. space
    for t in t_tables:
        trows = rows(t)
        for a in a_tables:
            for ex in extras:
                if a is None and ex:
                    continue
                arows = None if a is None else rows(a) + ex
                sp = B.space(trows, arows, CANONICAL)
                shrunk, S = space_bases(trows, arows, CANONICAL)
                n += 1
                if {c: M.runs(p) for c, p in S.items() if p} != sp["S"] or {c: M.runs(p) for c, p in shrunk.items() if p} != sp["shrunk"]:
                    bad += 1
                    print("SPACE MISMATCH", t, a, ex)
    # 2. clauses on correct and perturbed bin lists
    for t in t_tables[::7] + t_tables[-3:]:
        trows = rows(t)
        for a in a_tables[1:]:
            arows = rows(a) + extras[1]
            for avg, mn in ((1000, 100), (600, 300)):
                sp = B.space(trows, arows, CANONICAL)
                good = [b for st in B.stretches(sp, mn) for b in cut(st, avg)]
                for name, cand in perturbations(good):
                    k1 = {p[1] for p in B.antitarget_problems(cand, trows, arows, avg, mn, mn, CANONICAL)}
                    k2 = problems_bases(cand, trows, arows, avg, mn, mn, CANONICAL)
                    n += 1
                    if k1 != k2 or (name == "identity" and k1):
                        bad += 1
                        print("CLAUSE MISMATCH", name, t, a, avg, mn, sorted(k1), sorted(k2))
    # 3. split clauses
    for t in t_tables:
        baits = rows(t)
        for avg in (200 / 0.75, 267, 400, 1000):
            cov = M.cover(baits)
            good = [b[:3] for c in cov for s, e in cov[c] for b in cut((c, s, e), avg)]
            for name, cand in perturbations([b + ("x",) for b in good]):
                cand = [b[:3] for b in cand if b[0] == "chr1"]
                k1 = {p[1] for p in B.split_problems(baits, cand, avg, ["chr1"])}
                k2 = split_bases(baits, cand, avg)
                n += 1
                if bool(k1) != bool(k2) or (name == "identity" and k1):
                    bad += 1
                    print("SPLIT MISMATCH", name, t, avg, sorted(k1), sorted(k2))
    print("selftest.bins: %d comparisons, %d disagreements" % (n, bad))
    return 1 if bad else 0


def split_bases(baits, bins, avg):
    """Verdict on explicit position sets; Python's round() decides counts away from exact ties."""
    keys = set()
    want = set()
    for b in baits:
        want.update(range(b[1], b[2]))
    have = set()
    for i, b in enumerate(bins):
        pts = set(range(b[1], b[2]))
        if not pts:
            keys.add("empty-bin")
        if pts & have:
            keys.add("order-or-overlap")
        have |= pts
        if i and bins[i - 1][1] > b[1]:
            keys.add("order-or-overlap")
    if have != want:
        keys.add("cover")
        return keys
    if keys:
        return keys
    for s, e in M.runs(want):
        mine = [b for b in bins if s <= b[1] < e]
        q = (e - s) / avg
        ok = {max(1, round(q))}
        if abs(q - int(q) - 0.5) < 1e-9:
            ok = {max(1, int(q)), int(q) + 1}
        if len(mine) not in ok:
            keys.add("count")
        elif max(b[2] - b[1] for b in mine) - min(b[2] - b[1] for b in mine) > 1:
            keys.add("unequal")
    return keys


def M_multisets(items, k):
    out = [()]
    for n in range(1, k + 1):
        out += list(itertools.combinations_with_replacement(items, n))
    return out


if __name__ == "__main__":
    sys.exit(main())

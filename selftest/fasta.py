"""Cross-examination of models/fasta.py: two differently shaped formulations must agree.

  non_n_runs (regex on the record)      vs  scan_text (character walk over the rendered text)
  remove_bases (base sets)              vs  sweep_remove (endpoint sweep)  vs  models.intervals.iv_subtract
  join_strict (one pass)                vs  join_by_definition (cut points)
  judge_join                            accepts exactly the joinings between "<" and "<=" when equal_open,
                                        only join_strict when not; rejects every other grouping / shifted list

Run:  cd /verif && PYTHONPATH=. /venv/bin/python -m selftest.fasta       (exit 0 = agreement everywhere)
"""
import itertools
import sys

from models import fasta as F
from models import intervals as M


def words_upto(alpha, n):
    return ["".join(p) for k in range(n + 1) for p in itertools.product(alpha, repeat=k)]


def intervals(n):
    return [(s, e) for s in range(n + 1) for e in range(s + 1, n + 1)]


def main():
    n_scan = n_sub = n_join = n_judge = 0
    # 1. scanner formulations, single and multi record, every width / newline / description
    pool = words_upto("AN", 9) + words_upto("AcNn", 5)
    for w in pool:
        recs = [("chr1", w)]
        want = F.accessible(recs)
        for width in range(1, max(1, len(w)) + 2):
            for nl in (True, False):
                for desc in (False, True):
                    got = F.scan_text(F.render(recs, width, nl, desc))
                    assert got == want, (w, width, nl, desc, got, want)
                    n_scan += 1
    short = words_upto("AN", 3)
    for a, b, c in itertools.product(short, repeat=3):
        recs = [("chr1", a), ("chr2", b), ("chr3", c)]
        want = F.accessible(recs)
        for width in (1, 2, 3, 4):
            for nl in (True, False):
                got = F.scan_text(F.render(recs, width, nl, width % 2 == 0))
                assert got == want, (recs, width, nl, got, want)
                n_scan += 1
    for width in (1, 7, 60, 80):
        for lens in itertools.product([0, 1, width - 1, width, width + 1, 2 * width, 200], repeat=3):
            seq = "".join(("ACGTacgtn" * 30)[:n] if i % 2 == 0 else "N" * n for i, n in enumerate(lens))
            recs = [("chr1", seq), ("chr2", "NA")]
            got = F.scan_text(F.render(recs, width))
            assert got == F.accessible(recs), (width, lens)
            n_scan += 1
    # 2. removal formulations
    for w in words_upto("AN", 6):
        runs = F.non_n_runs(w)
        ivs = intervals(len(w) + 1)
        for k in (0, 1, 2):
            for ex in itertools.combinations_with_replacement(ivs, k):
                a = F.remove_bases(runs, F.excluded_positions(ex))
                b = F.sweep_remove(runs, ex)
                c = M.iv_subtract(M.norm(runs), M.norm(ex))
                assert a == b == c, (w, ex, a, b, c)
                n_sub += 1
                # 3. joining formulations and the judge
                for m in range(0, len(w) + 1):
                    s = F.join_strict(a, m)
                    assert s == F.join_by_definition(a, m), (a, m)
                    loose = F.join_strict(a, m + 1)
                    n_join += 1
                    assert F.judge_join(a, s, m, True) == [] and F.judge_join(a, s, m, False) == []
                    assert F.judge_join(a, loose, m, True) == []
                    if loose != s:
                        assert F.judge_join(a, loose, m, False) != []
                    # every grouping of the pieces: admissible iff every inner gap <= m and every outer gap >= m
                    if len(a) <= 4 and k <= 1:
                        for cuts in itertools.product((0, 1), repeat=max(0, len(a) - 1)):
                            groups, cur = [], [a[0]] if a else []
                            for j, cflag in enumerate(cuts):
                                if cflag:
                                    groups.append(cur)
                                    cur = [a[j + 1]]
                                else:
                                    cur.append(a[j + 1])
                            if cur:
                                groups.append(cur)
                            obs = [(g[0][0], g[-1][1]) for g in groups]
                            gaps = [a[j + 1][0] - a[j][1] for j in range(len(a) - 1)]
                            ok = all((g >= m) if cflag else (g <= m) for g, cflag in zip(gaps, cuts))
                            verdict = F.judge_join(a, obs, m, True) == []
                            assert verdict == ok, (a, obs, m, ok)
                            strict_ok = all((g >= m) if cflag else (g < m) for g, cflag in zip(gaps, cuts))
                            assert (F.judge_join(a, obs, m, False) == []) == strict_ok, (a, obs, m)
                            n_judge += 1
                            # shifted / truncated lists are never admissible
                            for bad in (obs[1:], obs[:-1], [(x + 1, y + 1) for x, y in obs], [(x, y + 1) for x, y in obs]):
                                if bad != obs:
                                    assert F.judge_join(a, bad, m, True) != [], (a, bad, m)
                                    n_judge += 1
    print(f"selftest fasta: {n_scan} scans, {n_sub} removals, {n_join} joins, {n_judge} judgements: formulations agree")
    return 0


if __name__ == "__main__":
    sys.exit(main())
